#!/bin/bash
# F-12a: builds the real C runtime with AddressSanitizer and replays the witness: "äb" with its first character replaced
# by 'a' is compared with "ab". Before the fix: heap-buffer-overflow in memcmp (ddp_string_equal); after: equal=1.
REPO=${1:-/repo}
D=$(mktemp -d)
clang-14 -g -fsanitize=address -w -I$REPO/lib/runtime/include -D_POSIX_C_SOURCE=200809L $(dirname $0)/replace_shrink.c \
  $REPO/lib/runtime/source/DDP/operators.c $REPO/lib/runtime/source/DDP/ddptypes.c $REPO/lib/runtime/source/DDP/memory.c \
  $REPO/lib/runtime/source/DDP/utf8/utf8.c -o $D/t -lm && ASAN_OPTIONS=detect_leaks=0 $D/t
rc=$?
rm -rf $D
exit $rc
