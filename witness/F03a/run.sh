#!/bin/bash
# F-03a: a generic function with a parameter of type T-R-Z-Tripel is called with a Zahl-Vektor2 (an instantiation of another
# generic Kombination with fewer type parameters). Before the fix the front end crashed ("runtime error: index out of range
# [1] with length 1" from ddptypes.UnifyGenericType, reported as ParserError with a stack trace); after: a diagnostic.
REPO=${VERIF_REPO:-/repo}
S=$(mktemp -d /tmp/f03a.XXXXXX); trap 'rm -rf $S' EXIT
export GOFLAGS=-mod=mod GOPROXY=off
export CGO_CPPFLAGS="$(llvm-config-14 --cppflags)" CGO_CXXFLAGS=-std=c++14 CGO_LDFLAGS="$(llvm-config-14 --ldflags --libs --system-libs all)"
(cd $REPO && go build -o $S/kddp ./cmd/kddp) || exit 3
cp $(dirname $0)/unify_other_generic.ddp $S/p.ddp
out=$(cd $S && ./kddp kompiliere p.ddp -o p.ll --list-defs-linken=false --module-linken=false 2>&1)
echo "$out" | head -8
if echo "$out" | grep -q "runtime error\|StackTrace"; then exit 1; fi
exit 0
