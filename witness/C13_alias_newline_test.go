package scanner

// Witness for finding F-13 (C13): a line break inside an alias parameter <...> must be counted,
// so that tokens after it report the right line. The test asserts the property; it FAILS while the defect exists.

import (
	"testing"

	"github.com/DDP-Projekt/Kompilierer/src/ddperror"
	"github.com/DDP-Projekt/Kompilierer/src/token"
)

func TestWitnessF13(t *testing.T) {
	alias := token.Token{Type: token.STRING, Literal: "\"foo <a\nb> bar\"", Range: token.Range{Start: token.Position{Line: 1, Column: 1}}}
	toks, err := ScanAlias(alias, func(ddperror.Error) {})
	if err != nil {
		t.Fatal(err)
	}
	for _, tok := range toks {
		if tok.Literal == "bar" {
			if tok.Range.Start.Line != 2 {
				t.Errorf("token 'bar' follows a line break but is reported on line %d, column %d", tok.Range.Start.Line, tok.Range.Start.Column)
			}
			return
		}
	}
	t.Fatalf("token 'bar' not found in %v", toks)
}
