#include "DDP/ddptypes.h"
#include "DDP/ddpmemory.h"
#include <stdio.h>
#include <locale.h>
void ddp_replace_char_in_string(ddpstring *str, ddpchar ch, ddpint index);
ddpbool ddp_string_equal(ddpstring *a, ddpstring *b);
void ddp_runtime_error(int code, const char *fmt, ...) { printf("runtime error\n"); __builtin_trap(); }
int main(void) {
	setlocale(LC_ALL, "C.UTF-8");
	ddpstring a, b;
	ddp_string_from_constant(&a, "\xc3\xa4" "b");   /* "äb" */
	ddp_string_from_constant(&b, "ab");
	ddp_replace_char_in_string(&a, 0x110000, 1);          /* now "ab" */
	printf("a=\"%s\" cap=%ld  b=\"%s\" cap=%ld\n", a.str, (long)a.cap, b.str, (long)b.cap);
	printf("equal=%d\n", (int)ddp_string_equal(&a, &b));
	return 0;
}
