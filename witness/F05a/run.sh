#!/bin/bash
# F-05a: builds the real C runtime with AddressSanitizer + LeakSanitizer and replays the witness.
# Before the fix: "detected memory leaks" (exit 1); after: exit 0.
REPO=${1:-${VERIF_REPO:-/repo}}
D=$(mktemp -d)
clang-14 -g -fsanitize=address -w -I$REPO/lib/runtime/include -D_POSIX_C_SOURCE=200809L $(dirname $0)/empty_owner_concat.c \
  $REPO/lib/runtime/source/DDP/operators.c $REPO/lib/runtime/source/DDP/ddptypes.c $REPO/lib/runtime/source/DDP/memory.c \
  $REPO/lib/runtime/source/DDP/utf8/utf8.c -o $D/t -lm && ASAN_OPTIONS=detect_leaks=1 $D/t
rc=$?
rm -rf $D
[ $rc -ne 0 ] && exit 1
exit 0
