/* F-05a: "t verkettet mit u" where both operands are empty by ddp_string_empty but the left one owns a block
   (the Text of the Buchstabe 0, or of an invalid Buchstabe): the left operand is consumed by contract
   ("any memory allocated by str1 is either claimed for the result or freed"), so the generated code never
   releases it again - on the defective tree its block is neither in the result nor freed. */
#include "DDP/ddptypes.h"
#include "DDP/ddpmemory.h"
#include <stdio.h>
#include <locale.h>
void ddp_char_to_string(ddpstring *ret, ddpchar c);
void ddp_string_string_verkettet(ddpstring *ret, ddpstring *str1, ddpstring *str2);
void ddp_runtime_error(int code, const char *fmt, ...) { printf("runtime error\n"); __builtin_trap(); }
int main(void) {
	setlocale(LC_ALL, "C.UTF-8");
	for (int round = 0; round < 2; round++) {
		ddpstring a, b = DDP_EMPTY_STRING, r;
		ddp_char_to_string(&a, round == 0 ? 0 : 55296); /* (0 als Buchstabe) als Text / an invalid Buchstabe */
		printf("left operand: str=%p cap=%ld\n", (void *)a.str, (long)a.cap);
		ddp_string_string_verkettet(&r, &a, &b);      /* consumes a */
		printf("result: str=%p cap=%ld; left operand afterwards: str=%p cap=%ld\n", (void *)r.str, (long)r.cap, (void *)a.str, (long)a.cap);
		ddp_free_string(&r);                          /* the generated code releases the result, never a */
	}
	return 0;
}
