#!/bin/bash
# F-05a on the whole pipeline: compiles, links and runs the one-line program nul_text_concat.ddp with a kddp and a C runtime
# built from the tree. Before the fix the program aborts ("free(): double free detected", exit 134); after: exit 0.
S=$(mktemp -d /tmp/f05a.XXXXXX); trap 'rm -rf $S' EXIT
out=$(VERIF_SCRATCH=$S /verif/tools/ddp_run.sh $(dirname $0)/nul_text_concat.ddp 2>&1)
echo "$out" | tail -3
echo "$out" | grep -q "^exit=0$"
