#include "DDP/ddptypes.h"
#include <stdio.h>
#include <string.h>
#include <locale.h>
void ddp_char_string_verkettet(ddpstring *ret, ddpchar c, ddpstring *str);
void ddp_runtime_error(int code, const char *fmt, ...) { printf("runtime error\n"); __builtin_trap(); }
static void dirty(void) { volatile char junk[64]; memset((void *)junk, 'x', sizeof junk); }
int main(void) {
	setlocale(LC_ALL, "C.UTF-8");
	ddpstring r, e = {NULL, 0};
	dirty();                                   /* leave non-zero bytes where temp[] will live */
	ddp_char_string_verkettet(&r, 0xD800, &e); /* a surrogate followed by the empty Text */
	printf("cap=%ld str=\"%s\"\n", (long)r.cap, r.str ? r.str : "(null)");
	return 0;
}
