#!/bin/bash
# F-16b witness: the same faulty source is compiled N times; the delivered diagnostics must be identical every time.
# On the defective tree the first (and, because of panic mode, only) diagnostic of a call with two faulty arguments
# depends on the iteration order of the argument map. Usage: run.sh [N]   (exit 1 = diagnostics differ between runs)
N=${1:-40}
REPO=${VERIF_REPO:-/repo}
S=$(mktemp -d /tmp/f16b.XXXXXX); trap 'rm -rf $S' EXIT
export GOFLAGS=-mod=mod GOPROXY=off
export CGO_CPPFLAGS="$(llvm-config-14 --cppflags)" CGO_CXXFLAGS=-std=c++14 CGO_LDFLAGS="$(llvm-config-14 --ldflags --libs --system-libs all)"
(cd $REPO && go build -o $S/kddp ./cmd/kddp) || exit 3
rc=0
for prog in calls_names calls_types struct_names; do
  cp $(dirname $0)/$prog.ddp $S/p.ddp
  for i in $(seq 1 $N); do (cd $S && ./kddp kompiliere p.ddp -o p.ll --list-defs-linken=false --module-linken=false 2>&1 | md5sum); done | sort | uniq -c > $S/counts
  k=$(wc -l < $S/counts)
  echo "$prog: $k distinct diagnostic output(s) in $N runs"
  [ "$k" -gt 1 ] && rc=1
done
exit $rc
