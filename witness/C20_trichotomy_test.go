package parser

// Witness for known finding F-20 (C20): two distinct Kombination types that print alike are
// neither tokenEqual nor ordered by tokenLess, so the sorted-slice map of the alias trie loses
// a key: a declared alias is no longer found and a duplicate declaration is not rejected.
// The test asserts the property; it FAILS on a tree that still has the defect.

import (
	"testing"

	"github.com/DDP-Projekt/Kompilierer/src/ast"
	"github.com/DDP-Projekt/Kompilierer/src/ddptypes"
	at "github.com/DDP-Projekt/Kompilierer/src/parser/alias_trie"
	"github.com/DDP-Projekt/Kompilierer/src/token"
)

func TestWitnessF20(t *testing.T) {
	x1 := &ddptypes.StructType{Name: "X"}
	x2 := &ddptypes.StructType{Name: "X"}
	mk := func(typ ddptypes.Type) *token.Token {
		return &token.Token{Type: token.ALIAS_PARAMETER, Literal: "<a>", AliasInfo: &ddptypes.ParameterType{Type: typ}}
	}
	k0 := mk(&ddptypes.StructType{Name: "A"}) // prints "A" < "X"
	k1, k2 := mk(x1), mk(x2)
	if tokenEqual(k1, k2) {
		t.Skip("the two types are identified; witness not applicable")
	}
	if !tokenLess(k1, k2) && !tokenLess(k2, k1) {
		t.Errorf("trichotomy violated: k1, k2 are neither equal nor ordered")
	}
	trie := at.New[*token.Token, ast.Alias](tokenEqual, tokenLess)
	a0, a1, a2 := &ast.FuncAlias{}, &ast.FuncAlias{}, &ast.FuncAlias{}
	trie.Insert([]*token.Token{k1}, a1)
	trie.Insert([]*token.Token{k2}, a2)
	trie.Insert([]*token.Token{k0}, a0)
	for i, k := range []*token.Token{k0, k1, k2} {
		if ok, _ := trie.Contains([]*token.Token{k}); !ok {
			t.Errorf("declared alias %d is no longer found in the trie", i)
		}
	}
}
