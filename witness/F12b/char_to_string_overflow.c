#include "DDP/ddptypes.h"
#include <stdio.h>
#include <locale.h>
void ddp_char_to_string(ddpstring *ret, ddpchar c);
void ddp_runtime_error(int code, const char *fmt, ...) { printf("runtime error\n"); __builtin_trap(); }
int main(void) {
	setlocale(LC_ALL, "C.UTF-8");
	ddpstring r;
	ddp_char_to_string(&r, 0x7fffffff);
	printf("cap=%ld\n", (long)r.cap);
	return 0;
}
