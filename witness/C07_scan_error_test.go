package parser

// Witness for finding F-07a (C07): an error-level diagnostic reported by the scanner must mark the module faulty.
// The test asserts the property; it FAILS on a tree that has the defect.

import (
	"testing"

	"github.com/DDP-Projekt/Kompilierer/src/ddperror"
)

func TestWitnessF07a(t *testing.T) {
	delivered := false
	mod, err := Parse(Options{
		FileName: "witness.ddp",
		Source:   []byte("Der Buchstabe b ist 'abc'.\n"),
		ErrorHandler: func(e ddperror.Error) {
			if e.Level == ddperror.LEVEL_ERROR {
				delivered = true
			}
		},
	})
	if err != nil {
		t.Fatalf("Parse failed: %v", err)
	}
	if !delivered {
		t.Skip("no error-level diagnostic was delivered for this source; witness not applicable")
	}
	if !mod.Ast.Faulty {
		t.Errorf("an error-level diagnostic was delivered but module.Ast.Faulty is false")
	}
}
