#!/usr/bin/env python3
"""Regenerates MANIFEST.json from the table below (kept in one place so it stays valid)."""
import json, subprocess

CLAIMS = {
 "C20": dict(
   text="Deductive proof (self-generated VCs over go/ssa, discharged by z3/cvc5) that the sorted-slice map used by the alias trie implements an abstract map: binarySearch/Get/Set/Delete/New/Len against the view (wf, keyAt, valAt, has) for all map sizes and all keys, under the hypothesis ordered(eq, less); panic-freedom (nil, bounds, type assertions, int overflow) of these functions.",
   note="Trusted: go/ssa as Go semantics, the SMT solvers, the engine's SSA semantics; eq/less are pure functions (declared puretype); ordered(tokenEqual, tokenLess) is a separate lemma (see evidence: known findings).",
   ref="6/C20"),
}
CLAIMS.update({
 "C14": dict(
   text="Deductive proof that type equivalence is lawful: GetUnderlying/Equal/IsNumeric/IsList/Cast*/TrueUnderlying/ParamTypesEqual are proved against the specification function norm (alias-transparent, definition-opaque normal form), and reflexivity, symmetry, transitivity, alias transparency (also under lists and behind aliases), typedef opacity and identity are proved as lemmas from these contracts for all types. The agreement of initialisation and assignment positions in the typechecker is not yet under contract.",
   note="Trusted: norm/tnorm/rank axioms (recursive definition by cases; type graphs acyclic; rank(norm t) <= rank t), immutability of type graphs, go/ssa, SMT solvers.",
   ref="6/C14"),
 "C16": dict(
   text="Partial. Deductive proof that the comparators handed to sort.Slice at the anchored sites (imported declarations by position; alias candidates) compute a specified key order and that this order is a strict weak order, total on distinct positions, so the sorted result does not depend on map iteration order. The walk over the import graph (module initialisation order) is proved to follow the import lists, dependencies first. Order-independence of the remaining range-over-map loops is not decided.",
   note="Trusted: sort.Slice is deterministic for a strict weak order; interface accessors GetRange/GetTokens/GetArgs are pure; the inner fold countRefAndGenericArgs is an assumed contract.",
   ref="6/C16"),
 "C09": dict(
   text="Partial. Deductive proof that the candidate comparator of sortAliases orders by (pattern length descending, generic parameters ascending, reference parameters descending) as the statement prescribes, and that this order is a strict weak order (lemmas). Operator overload lookup (findOverload): every candidate is tried with freshly cleared type-parameter bindings (per-iteration obligation on the candidate loop), so a binding made while rejecting one candidate cannot leak into the next. The alias candidate selection loop and argument binding by name (checkAlias) are not under contract (symbolic execution of checkAlias does not finish).",
   note="Trusted: GetTokens/GetArgs pure; the fold countRefAndGenericArgs (assumed contract: counts top-level generic parameters - known limitation F-09).",
   ref="6/C09"),
 "C06": dict(
   text="Partial. (a) Code-generator side, list indexing: the functions that emit the list index check (rvalue: VisitBinaryExpr/BIN_INDEX; assignment target, Referenz argument and nested indexing: evaluateAssignableOrReference) are executed symbolically as real code under trusted contracts on the llir builder API that give each emitted instruction its LLVM meaning (IR-denotation layer). Proved for all 2^64 index values and all lengths >= 0: ddp_runtime_error is reached exactly when !(1 <= i <= len) with len the list's length field, the element address is computed only under 0 <= i-1 < len, and code after the check runs only on the in-range path. (b) C runtime, Text indexing and character replacement (ddp_string_index, ddp_replace_char_in_string): the C functions are extracted mechanically from the tree's sources on every run (clang -O0 IR -> Go, one statement per instruction) and verified against contracts over a ghost byte-memory model: for every well-formed UTF-8 Text and every 64-bit index the run-time error function is called exactly when the index is outside 1..number of code points (or the stored value is not a character), a normal return means the index was inside, every byte access lies inside a live block, and the result is the code point whose lead byte is preceded by exactly index-1 lead bytes. Slicing, list slices, Variable casts and '...' are not under contract.",
   note="Trusted: ~20 llir builder contracts (LLVM LangRef semantics), loadStructField/addTemporary frames, IR type descriptor accessors, immutability of the AST during code generation; for the C part: clang's -O0 IR as the meaning of the C source, the extraction (tools/c2go.py, DESIGN 3b), contracts of libc (strlen, memcpy, memmove, memcmp, realloc, free) and of glibc's c32rtomb/mbrtoc32, out-of-memory not modelled, well-formed UTF-8 (validT) as a precondition.",
   ref="6/C06"),
 "C07": dict(
   text="Partial. Deductive proof of the local links of the failure-flag chain in the parser: the handler wrapper installed by newParser raises errored exactly for error-level diagnostics and forwards every diagnostic once; errored is written nowhere else in the package (syntactic frame obligation over the SSA); parse() ends with Ast.Faulty == errored (so nothing that can still report runs after the flag is copied); errVal delivers the first error and suppresses follow-ups in panic mode; warn never counts as failure. Range validity, the renderer and the CLI exit status are not yet under contract.",
   note="Trusted: model of a diagnostic-handler call (counts as delivered; may raise only the errored flag of the parser whose wrapper it is); the handler given to newParser is not that parser's own wrapper; deferred panic wrappers are not executed (recover unmodelled).",
   ref="6/C07"),
 "C13": dict(
   text="Deductive proof of the whole scanner (every function of scanner.go is under contract) against a code-point model of the source (validA/runeA/widthA over the byte array, lineAt/colAt with one-step unfolding): the cursor stays in bounds on a code point boundary; every token's literal is the source text between its start and end offsets; its range is the 1-based line/column, in code points, of those offsets; between tokens only blanks are skipped; every non-EOF token is non-empty (progress) and the stream ends with exactly one EOF which is the last token; the token kind follows the class of the first character (identifier/keyword with the case-folding rule, INT/FLOAT, text, character, comment, punctuation); New refuses invalid UTF-8; all index/slice expressions are in bounds and all loops terminate (explicit variants). Not decided: the keyword table itself, the exact FLOAT condition 'digits , digit', indentation counting.",
   note="Trusted: contracts of utf8.DecodeRune/Valid/RuneCountInString (well-formed UTF-8 model: valid_step, valid_ascii axioms), immutability of the source text.",
   ref="6/C13"),
 "C10": dict(
   text="Partial. Deductive proof (nested loop invariants, recursion by contract) that the walk over the import graph hands a module to the callback only after entering it into the visited set (at most once per module) and only after every module it imports has been visited (dependencies first), following the import lists, not a map order. Visibility of exactly the public names, name mangling and cycle rejection are not yet under contract.",
   note="Trusted: the import graph is not rewritten during the walk; the callback cannot reach the visited set ('preserves' clause); import lists contain no nil modules.",
   ref="6/C10"),
 "C02": dict(
   text="Partial (operator lowering in the code generator). The lowering functions VisitUnaryExpr, VisitBinaryExpr (arithmetic, durch, modulo, bitwise, shifts, comparisons, entweder-oder) and VisitTernaryExpr (zwischen) are executed symbolically as real code, once per tuple of operator and operand type classes (exhaustive case split), under trusted llir builder contracts that carry the LLVM type class of every value. Proved for every admissible tuple (admissibility and result type written from the language rules): no path reaches c.err (the 'Unerwarteter Fehler' panic), every builder call gets operands of matching IR type, and the result registers hold the descriptor and an IR value of exactly the type the checker assigns. Explicit conversions ('als') between the primitive classes and from Variable: one conversion table (package ast contracts) is the postcondition of the type checker's VisitCastExpr (diagnostic <=> not in the table) and the precondition of the code generator's VisitCastExpr, which is proved to yield the target class's descriptor and IR type with conversion instructions of the right widths for every (source, target) pair. Text/list operators, conversions to/from Text and lists, argument/return contexts and linking are not under contract.",
   note="Trusted: llir builder contracts (type classes per LangRef), the induction hypothesis on c.evaluate for sub-expressions (each other Visit* method yields the descriptor and IR type of the checker's type), the compiler's set-up facts wfCompiler (distinct descriptors, IR constants' types), commentNode frame.",
   ref="6/C02"),
 "C04": dict(
   text="Partial (rule 'operand of a wrong type', so far). For the type checker's VisitUnaryExpr, VisitBinaryExpr (arithmetic, durch, modulo, bitwise, shifts, comparisons, entweder-oder) and VisitTernaryExpr (zwischen), per operator: an operand tuple that is inadmissible by the language's typing table is reported (the module becomes faulty through the one error path err, which is itself under contract), an admissible one adds no diagnostic, and the result type is the one the table gives. The same table (package ast contracts) is the precondition of the code generator's contracts under C02. isOneOf is proved to be membership up to type equivalence. Name rules of the resolver: a name used as a value that is undeclared or stands for a function/Kombination is reported and otherwise bound to its declaration; assignment to an undeclared name, a non-variable or a constant is reported; a redeclaration in the same scope is reported; break/continue outside a loop is reported; each report makes the module faulty through the one error path. Statement and expression rules of the type checker (conditions of wenn/solange/für must be Wahrheitswert, counting-loop bounds numeric, for-each over Text or a list, index of a list/Text must be a Zahl, field access only on Kombinationen, return type matches the declaration, every argument of a call whose type differs from its parameter's is reported - per-iteration obligation on the argument loop): a violating node is reported. Final return, visibility of private fields and articles are not under contract.",
   note="Trusted: Evaluate as induction hypothesis for sub-expressions, findOverload frame, ddptypes contracts (C14), diagnostic handler model.",
   ref="6/C04"),
 "C19": dict(
   text="Partial. Deductive proofs for the literal paths: the scanner accepts exactly the seven escape sequences (a b n r t backslash and the literal's own quote) and reports every other one; lemmas show that scanner and parser use the same escape sets for characters and for texts; parseChar is proved against its total functional specification (one code point denotes itself, backslash+escape denotes the escape's value, unknown escapes are reported, anything else yields -1); parseIntLit returns the written value when strconv accepts the literal and otherwise delivers a diagnostic with value 0 (never a silently altered value); the text un-escaping loop parseString is proved memory-safe and terminating. The functional correctness of parseString's result, decimal rounding and the run-time side are not decided.",
   note="Trusted: utf8/strings/strconv contracts (first/last code point, ParseInt succeeds exactly on representable literals), string-length axioms of the engine's string model, diagnostic handler model.",
   ref="6/C19"),
 "C03": dict(
   text="Partial. Scanner: every function is proved panic-free (all index/slice expressions, nil dereferences) and terminating (explicit loop variants) on every valid UTF-8 input, and New refuses invalid UTF-8 (shared with C13). Parser: the token-cursor primitives (peek, peekN, previous, advance, decrease, check, atEnd, matchAny, matchSeq) never leave the token slice under the cursor invariant established by newParser; synchronize and the text un-escaping loop terminate; the WalkDir callback of directory imports uses the directory entry only where WalkDir guarantees it is non-nil. Type recursion (GetUnderlying, TrueUnderlying) terminates under acyclic type graphs (decreases clauses). Zero-annotation safety sweep: every function of typechecker and resolver without a contract is executed with havocked callees and no precondition; each type assertion, index/slice expression and division whose safety follows from the function's own guards is an obligation in the ledger (so deleting a guard fails a named clause). Not decided: progress of the main parsing loops, panic-freedom of the remaining parser functions, nil-freedom of AST links.",
   note="Trusted: utf8 contracts; the sweep assumes nil-freedom of receivers/fields; WalkDir's documented behaviour (nil entry only with the root path).",
   ref="6/C03"),
 "C01": dict(
   text="Fragment only (one necessary condition of the statement): signedness discipline of the operator lowering. With the LLVM type class of every IR value tracked by the builder contracts, it is proved for every admissible (operator, operand classes) tuple of the unary, binary-numeric and zwischen operators and of numeric assignment that a Byte (the only i8 class, unsigned) is never the operand of a sign-dependent instruction (sitofp, sext, sdiv, srem, signed icmp, fptosi to i8) and that the unsigned variants are used only on Bytes. This is value-independent, so it holds for every operand value; the same discipline is proved for the explicit conversions between primitive classes (VisitCastExpr). Everything else in C01 (precedence, short-circuit evaluation, loops, indexing, equality, output) is not decided by this check.",
   note="Trusted: as for C02 (llir builder contracts, induction hypothesis on evaluate, wfCompiler).",
   ref="6/C01"),
 "C15": dict(
   text="Fragment (the ddptypes side of the statement). The binding step of unification (the closure unifyType of UnifyGenericType) is proved against its map specification: an already-bound type parameter keeps its first binding and returns it (so that the caller's comparison with the argument type rejects a second, different binding), an unbound one is bound to the argument, and no other binding changes; in UnifyGenericType every type argument of a generic Kombination parameter ends its iteration checked against the argument's (loop-end obligation), so none escapes the consistency check. The struct instantiation cache GetInstantiatedStructType is proved, with a loop invariant over the cached list, to return the first cached instantiation whose type arguments are pairwise equivalent to the requested ones (equal arguments: one and the same type object), otherwise a fresh object distinct from every cached one that is appended to the cache, and nil exactly on an arity mismatch. Not decided: re-parsing of generic function bodies, the per-module function cache, the merged symbol table, and code generation of instantiations (they are behavioural equivalences between two parses, outside function contracts).",
   note="Trusted: slices.EqualFunc (result is the uninterpreted relation eqAllBy of its three arguments), immutability of StructType.instantiatedWith after construction, map model of the engine.",
   ref="6/C15"),
 "C18": dict(
   text="Partial (declaration side of the convention). Proved on the real code generator: (1) which descriptors are 'primitive' - the seven IsPrimitive implementations, linked to the interface method by dynamic dispatch; (2) toIrType maps every DDP type class (after aliases and type definitions) to its descriptor - Zahl, Kommazahl, Byte, Wahrheitswert, Buchstabe by-value descriptors, Text, Variable, the seven list descriptors and Kombinationen non-primitive ones; (3) toIrParamType yields the value type exactly for a non-Referenz parameter of the five primitive classes and a pointer to the representation for Text, lists, Kombinationen, Variable and every Referenz (the relation rep, written from the statement); (4) both places that build an IR signature (VisitFuncDecl for declared/extern functions, declareImportedFuncDecl for imported ones) hand llir exactly: a leading out-pointer of the result's representation and IR result void for a non-primitive result, the value type as IR result otherwise, then one IR parameter per declared parameter in order, each rep(parameter) (loop invariants over the parameter list; opaque pointers for generic extern parameters). Not decided: argument construction and caller-side release at call sites, the C header layouts, unmangled names of extern symbols, linking.",
   note="Trusted: ir.NewParam/Module.NewFunc (llir), IrType/PtrType accessors as uninterpreted functions of the descriptor (PtrType = pointer to IrType is a set-up fact), CastDeeplyNestedGenerics as the definition of 'generic', mangledNameDecl frame, immutability of the descriptor fields of the compiler, AST link GenericInstantiation.GenericDecl != nil.",
   ref="6/C18"),
 "C12": dict(
   text="The C runtime's Text functions are extracted mechanically from the tree's C sources on every run (clang -O0 LLVM IR -> Go, one statement per IR instruction; DESIGN 3b) and verified function by function against contracts over a ghost byte-memory model (blocks with contents and size; every byte access is an obligation 'inside a live block'). Proved for all inputs: the UTF-8 byte classes and widths of utf8.c (continuation/lead classification by bit masks, utf8_indicated_num_bytes, utf8_num_bytes = width of the first well-formed character or 0, utf8_num_bytes_char = encoding length or -1 for non-scalar values incl. surrogates); utf8_strlen and ddp_string_length return the number of code points (count of lead bytes - a counting quantifier with loop invariant); utf8_char_to_string/utf8_string_to_char against the encoding/decoding arithmetic (glibc's conversion functions trusted); indexing returns the index-th code point and errors exactly outside 1..length; character replacement keeps the bytes before and after and yields a well-formed Text of the right length for shorter, equal and longer encodings; the three concatenations produce exactly the bytes of the operands in order, consume their Text operand and keep the other; Buchstabe->Text conversion; copies are byte-identical and fresh; equality holds exactly for equal byte sequences (and is memory-safe for the non-canonical empty Texts the runtime produces). Texts are well-formed (cap bytes, one terminating NUL) after every operation. Slicing (ddp_string_slice) copies exactly the bytes from the lead byte of the clamped first index to the end of the character at the clamped second index. Not decided: number<->Text conversions, iteration code emitted by the compiler, that operations preserve UTF-8 validity (validT is a precondition of indexing/replacement, not yet a postcondition), normalisation questions.",
   note="Trusted: clang -O0 IR as the meaning of C, the extraction tool, libc contracts (strlen, memcpy, memmove, memcmp, realloc, free), glibc c32rtomb/mbrtoc32 (observed behaviour: encodes up to 0x7fffffff), out-of-memory not modelled, signed 64-bit integers with every overflow an obligation (stricter than C for size_t).",
   ref="6/C12"),
 "C05": dict(
   text="Partial: the two ledgers the statement names, each at the level where contracts can state it. (1) Compile-time ownership ledger (scope.go / compiler.go, Go): addTemporary appends exactly one unprotected entry and changes no other; claimTemporary removes exactly the last entry recorded for the value (ownership moves to the caller) and keeps every other entry in order; protect/unprotect flip the flag of that entry only; freeNonPrimitive emits exactly one call, of the descriptor's own free function on that value, iff the type is not primitive; freeTemporaries emits exactly count{k : (!protected[k] or force) and not primitive[k]} calls - one per eligible ledger entry, in order, with its own descriptor (loop invariant with a counting quantifier over the ledger); exitScope releases only variables that are neither references nor protected and then the unprotected temporaries; claimOrCopy claims exactly temporaries and deep-copies exactly non-temporaries. (2) Run-time ledger (C runtime, extracted mechanically, DESIGN 3b): ddp_reallocate is verified against a block model (release <=> newSize == 0, the old block is gone exactly when a different one is returned, contents preserved up to min(old,new), no other block changes) and its precondition 'pointer is NULL with size 0, or the start of a live block whose true size is oldSize' is proved at every call site in the extracted Text functions (free, copy, from_constant, three concatenations, Buchstabe->Text, character replacement); every byte access in these functions lies inside a live block; consumed operands are left as the empty Text and their block is reused or released. Not decided: that generated programs call these operations in an order that releases every block exactly once (a whole-program property of the emitted IR: early returns, loops, short-circuit operands), lists and Variable (unions/vtables are outside the extraction), -O2 copy elision.",
   note="Trusted: llir NewCall counts as one emitted call (ghost counter), descriptor accessors pure, map iteration model of go/ssa; for the C part: as for C12 (clang -O0 IR, extraction tool, libc contracts incl. realloc modelled as always moving and never failing).",
   ref="6/C05"),
})
NA = {
 "C08": "relational whole-program property (no holder observes another holder's mutation); no function contract within reach states it; the local copy/claim mechanics are covered under C05/C18 where claimed",
 "C11": "observational equivalence of executables across -O levels and link modes quantifies over LLVM's pass pipeline (cgo, external); no contract within reach expresses it",
 "C17": "the Duden is DDP source compiled by the compiler under test; there is no verifier for DDP and the C helpers index byte memory with a symbolic element size (non-linear), outside what the solvers decide",
}
ALL = ["C%02d" % i for i in range(1, 21)]

def main():
    commits = subprocess.run(["git", "-C", "/repo", "log", "--format=%H %s"], capture_output=True, text=True).stdout.splitlines()
    hook_commits = [l.split()[0] for l in commits if l.split(" ", 1)[1].startswith("verif:")]
    checks = []
    for pid in ALL:
        if pid not in CLAIMS:
            continue
        c = CLAIMS[pid]
        checks.append({
            "property_id": pid,
            "quick_cmd": "bin/check %s --tier quick" % pid,
            "thorough_cmd": "bin/check %s --tier thorough" % pid,
            "evidence_file": "/verif/evidence/%s.json" % pid,
            "replay_cmd_template": "bin/replay {path}",
            "engine": "vgo",
            "level_claimed": {"category": "proof", "text": c["text"], "design_ref": c["ref"]},
            "level_note": c["note"],
            "technique": "contract-based deductive verification: weakest-precondition style VCs generated from go/ssa of the real code, contracts in build-tag-guarded comment files, discharged by z3/cvc5",
        })
    na = []
    for pid in ALL:
        if pid in CLAIMS:
            continue
        na.append({"property_id": pid, "reason": NA.get(pid, "designed (DESIGN.md section 6) but not built yet; no check is claimed")})
    m = {
        "version": 1,
        "setup_cmd": "cd /verif/engine && GOFLAGS=-mod=mod GOPROXY=off go build -o /verif/bin/vgo .",
        "hooks": {
            "guard": "verif",
            "enable": "go build -tags verif ./... (contract files contracts_verif.go only; comment-only, no executable code)",
            "baseline_off_cmd": "cd /repo && GOFLAGS=-mod=mod GOPROXY=off go test -vet=off -count=1 ./src/...",
            "source_commits": hook_commits,
            "add_only": True,
        },
        "engines": [{"name": "vgo", "path": "/verif/engine", "serves_properties": sorted(CLAIMS), "kind_free_text": "VC generator over go/ssa NaiveForm + contract language + SMT race (z3 4.8.12, z3 5.1.0, cvc5 1.0.3)"}],
        "checks": checks,
        "not_applicable": na,
        "notes": "See DESIGN.md. Ledger per property in /verif/ledger; known findings in /verif/known_findings.json.",
    }
    json.dump(m, open("/verif/MANIFEST.json", "w"), indent=1)
    print("MANIFEST.json written:", len(checks), "checks,", len(na), "not applicable")

main()
