package main

// Evaluation of specification expressions against a symbolic state.

import (
	"fmt"
	"go/constant"
	"go/types"
	"math/big"
	"strconv"
	"strings"

	"golang.org/x/tools/go/ssa"
)

type SpecEnv struct {
	run     *Run
	st      *State
	old     *State
	fr      *Frame
	cs      *ContractSet
	te      TypeEnv
	mode    string // pre | post | inv | lemma
	vars    map[string]*Val
	loopHdr *ssa.BasicBlock
	depth   int
	result  *Val
	fn      *ssa.Function // function whose parameter names are in scope (may differ from fr.fn)
	freePtrs map[string]freeBinding
}

func newBigU(u uint64) *big.Int { return new(big.Int).SetUint64(u) }

type specErr struct{ msg string }

// freeBinding: the box of a captured variable (closure contracts applied at call sites)
type freeBinding struct {
	ptr *Val
	t   types.Type
}

// skipClause: the clause mentions labels internal to the callee and cannot be used at a call site
type skipClause struct{}

func (e *SpecEnv) fail(x *SExpr, format string, args ...any) {
	where := ""
	if x != nil {
		where = " in `" + x.String() + "`"
	}
	panic(specErr{fmt.Sprintf(format, args...) + where})
}

func (e *SpecEnv) with(vars map[string]*Val) *SpecEnv {
	n := *e
	n.vars = make(map[string]*Val, len(e.vars)+len(vars))
	for k, v := range e.vars {
		n.vars[k] = v
	}
	for k, v := range vars {
		n.vars[k] = v
	}
	return &n
}

var (
	tInt  = types.Typ[types.Int]
	tBool = types.Typ[types.Bool]
	tStr  = types.Typ[types.String]
)

func intVal(t *Term) *Val  { return &Val{T: tInt, L: []*Term{t}} }

func intValSort(t *Term) *Val {
	switch t.Sort {
	case SInt:
		return intVal(t)
	case SBool:
		return boolVal(t)
	}
	return &Val{L: []*Term{t}}
}
func boolVal(t *Term) *Val { return &Val{T: tBool, L: []*Term{t}} }

func (e *SpecEnv) evalBool(x *SExpr) *Term {
	v := e.eval(x)
	if len(v.L) != 1 || v.L[0].Sort != SBool {
		e.fail(x, "expected a boolean")
	}
	return v.L[0]
}

func (e *SpecEnv) evalInt(x *SExpr) *Term {
	v := e.eval(x)
	if len(v.L) != 1 || v.L[0].Sort != SInt {
		e.fail(x, "expected an integer")
	}
	return v.L[0]
}

func (e *SpecEnv) typesPkg() *types.Package {
	if e.cs != nil {
		if p := e.run.v.typesPkgOf(e.cs); p != nil {
			return p
		}
	}
	if e.fr != nil && e.fr.fn.Pkg != nil {
		return e.fr.fn.Pkg.Pkg
	}
	return nil
}

func (e *SpecEnv) resolveTypeSafe(t *SType) (r types.Type) {
	defer func() {
		if x := recover(); x != nil {
			r = nil
		}
	}()
	return e.resolveType(t)
}

func (e *SpecEnv) resolveType(t *SType) types.Type {
	switch t.Kind {
	case "ptr":
		return types.NewPointer(e.resolveType(t.Elem))
	case "slice":
		return types.NewSlice(e.resolveType(t.Elem))
	case "map":
		return types.NewMap(e.resolveType(t.Key), e.resolveType(t.Elem))
	}
	if t.Pkg == "" {
		switch t.Name {
		case "bv64", "bv8", "bv32", "bv1", "intarray", "ref":
			return pseudoType(t.Name)
		case "struct{}":
			return types.NewStruct(nil, nil)
		}
		if r, ok := e.te[t.Name]; ok {
			return r
		}
		// type parameters of the function in scope
		fn := e.fn
		if fn == nil && e.fr != nil {
			fn = e.fr.fn
		}
		if fn != nil {
			if tp := findTypeParam(fn, t.Name); tp != nil {
				return tp
			}
		}
		switch t.Name {
		case "any":
			return types.Universe.Lookup("any").Type()
		}
		if o := types.Universe.Lookup(t.Name); o != nil {
			if tn, ok := o.(*types.TypeName); ok {
				return tn.Type()
			}
		}
		if p := e.typesPkg(); p != nil {
			if o := p.Scope().Lookup(t.Name); o != nil {
				if tn, ok := o.(*types.TypeName); ok {
					return tn.Type()
				}
			}
		}
		// free-standing type parameter name (specs of generic packages)
		if len(t.Name) <= 2 && strings.ToUpper(t.Name) == t.Name {
			return e.run.v.pseudoTypeParam(t.Name)
		}
		e.fail(nil, "unknown type %s", t.Name)
	}
	p := e.run.v.findImport(e.typesPkg(), t.Pkg)
	if p == nil {
		e.fail(nil, "unknown package %s in type %s", t.Pkg, t)
	}
	o := p.Scope().Lookup(t.Name)
	if tn, ok := o.(*types.TypeName); ok {
		return tn.Type()
	}
	e.fail(nil, "unknown type %s", t)
	return nil
}

func findTypeParam(fn *ssa.Function, name string) *types.TypeParam {
	for f := fn; f != nil; f = f.Parent() {
		tps := f.TypeParams()
		for i := 0; tps != nil && i < tps.Len(); i++ {
			if tps.At(i).Obj().Name() == name {
				return tps.At(i)
			}
		}
		if sig := f.Signature; sig != nil && sig.Recv() != nil {
			rt := sig.Recv().Type()
			if p, ok := rt.(*types.Pointer); ok {
				rt = p.Elem()
			}
			if n, ok := rt.(*types.Named); ok {
				targs := n.TypeArgs()
				for i := 0; targs != nil && i < targs.Len(); i++ {
					if tp, ok := targs.At(i).(*types.TypeParam); ok && tp.Obj().Name() == name {
						return tp
					}
				}
			}
		}
	}
	return nil
}

func (e *SpecEnv) eval(x *SExpr) *Val {
	e.depth++
	defer func() { e.depth-- }()
	if e.depth > 200 {
		e.fail(x, "specification recursion too deep")
	}
	switch x.Kind {
	case "int":
		n, ok := new(big.Int).SetString(x.Name, 0)
		if !ok {
			e.fail(x, "bad integer")
		}
		return intVal(IntBig(n))
	case "str":
		return &Val{T: tStr, L: []*Term{strLit(x.Name)}}
	case "ident":
		return e.ident(x)
	case "unary":
		switch x.Op {
		case "!":
			return boolVal(Not(e.evalBool(x.Args[0])))
		case "-":
			return intVal(Neg(e.evalInt(x.Args[0])))
		case "*":
			p := e.eval(x.Args[0])
			a := e.run.addrOf(p, e.te)
			return e.run.load(e.st, a, a.T, e.te)
		}
	case "binary":
		return e.binary(x)
	case "cond":
		c := e.evalBool(x.Args[0])
		a := e.eval(x.Args[1])
		b := e.eval(x.Args[2])
		out := &Val{T: a.T}
		for i := range a.L {
			out.L = append(out.L, Ite(c, a.L[i], b.L[i]))
		}
		return out
	case "old":
		if e.old == nil {
			e.fail(x, "old() outside of a postcondition or invariant")
		}
		n := *e
		n.st = e.old
		n.mode = "pre"
		return n.eval(x.Args[0])
	case "quant":
		vars := map[string]*Val{}
		var bs []*Term
		for _, b := range x.Binders {
			t := e.resolveType(b.Type)
			ls := layoutTE(t, e.te)
			bv := &Val{T: t}
			base := freshName("q." + b.Name)
			for _, l := range ls {
				bt := Bound(base+leafSuffix(l.Path), l.Sort)
				bs = append(bs, bt)
				bv.L = append(bv.L, bt)
			}
			vars[b.Name] = bv
		}
		body := e.with(vars).evalBool(x.Args[0])
		if x.Op == "forall" {
			return boolVal(Forall(bs, body))
		}
		return boolVal(Exists(bs, body))
	case "sel":
		return e.sel(x)
	case "index":
		return e.index(x)
	case "assert":
		v := e.eval(x.Args[0])
		t := e.resolveType(x.Type)
		if v.L[0].Sort != SAny {
			e.fail(x, "type assertion on a non-interface value")
		}
		return unboxAny(v.L[0], t, e.te)
	case "is":
		v := e.eval(x.Args[0])
		t := e.resolveType(x.Type)
		if v.L[0].Sort != SAny {
			e.fail(x, "is[] on a non-interface value")
		}
		return boolVal(isAny(v.L[0], t, e.te))
	case "call":
		return e.call(x)
	case "mk":
		t := e.resolveType(x.Type)
		st, ok := types.Unalias(t).Underlying().(*types.Struct)
		if !ok {
			e.fail(x, "mk[] of non-struct type %s", t)
		}
		if len(x.Args) != st.NumFields() {
			e.fail(x, "mk[%s] expects %d field values", t, st.NumFields())
		}
		out := &Val{T: t}
		for i, a := range x.Args {
			v := e.adapt(x, e.eval(a), st.Field(i).Type())
			out.L = append(out.L, v.L...)
		}
		return out
	case "slice":
		e.fail(x, "slice expressions are not supported in specifications")
	}
	e.fail(x, "unsupported specification expression kind %s", x.Kind)
	return nil
}

func (e *SpecEnv) ident(x *SExpr) *Val {
	name := x.Name
	if v, ok := e.vars[name]; ok {
		return v
	}
	if strings.HasPrefix(name, "$") {
		tn, ok := ghostDecls[name]
		if !ok {
			e.fail(x, "undeclared ghost variable %s", name)
		}
		gt := e.resolveType(&SType{Kind: "name", Name: tn})
		ls := layoutTE(gt, nil)
		return &Val{T: gt, L: []*Term{e.st.comp("g:"+name, ls[0].Sort)}}
	}
	switch name {
	case "true":
		return boolVal(True)
	case "false":
		return boolVal(False)
	case "nil":
		return &Val{T: types.Typ[types.UntypedNil], L: []*Term{IntLit(0)}}
	case "result":
		if e.result != nil {
			return e.result
		}
	}
	if e.fr != nil && e.fr.loops != nil {
		// <comment><k>: the header phi with that comment of loop k (e.g. rangeindex0 = hidden index of loop 0)
		for hi, h := range e.fr.loops.headers {
			for _, in := range h.Instrs {
				phi, ok := in.(*ssa.Phi)
				if !ok {
					break
				}
				if fmt.Sprintf("%s%d", phi.Comment, hi) == name {
					if v, ok := e.fr.regs[phi]; ok {
						return v
					}
				}
			}
		}
	}
	// captured variables of a closure whose contract is applied at a call site: the variable's content in the state
	// the expression is evaluated in
	if fb, ok := e.freePtrs[name]; ok {
		a := e.run.addrOf(fb.ptr, e.te)
		return e.run.load(e.st, a, fb.t, e.te)
	}
	if e.fr != nil {
		fr := e.fr
		// captured variables of a closure: the name denotes the variable's current content
		for fv, pv := range fr.free {
			if fv.Name() == name {
				st := e.st
				a := e.run.addrOf(pv, e.te)
				return e.run.load(st, a, derefType(fv.Type()), e.te)
			}
		}
		// entry values of parameters in pre/post mode
		if e.mode == "pre" || e.mode == "post" {
			if v, ok := fr.params[name]; ok {
				return v
			}
		}
		// current value of a local (or parameter spill)
		if v := e.localByName(name); v != nil {
			return v
		}
		if v, ok := fr.params[name]; ok {
			return v
		}
		// a local that does not exist (yet) on this path: an arbitrary value of its type (sound for proofs)
		for _, b := range fr.fn.Blocks {
			for _, in := range b.Instrs {
				if a, ok := in.(*ssa.Alloc); ok && a.Comment == name {
					return freshVal(derefType(a.Type()), "undef."+name, e.te)
				}
			}
		}
	}
	// package-level constants and variables
	if p := e.typesPkg(); p != nil {
		if o := p.Scope().Lookup(name); o != nil {
			if v := e.objVal(o); v != nil {
				return v
			}
		}
	}
	e.fail(x, "unknown identifier %s", name)
	return nil
}

func (e *SpecEnv) objVal(o types.Object) *Val {
	switch oo := o.(type) {
	case *types.Const:
		ls := layoutTE(oo.Type(), nil)
		if len(ls) == 1 {
			switch ls[0].Sort {
			case SInt:
				if i, ok := constant.Int64Val(constant.ToInt(oo.Val())); ok {
					return &Val{T: oo.Type(), L: []*Term{IntLit(i)}}
				}
			case SBool:
				return &Val{T: oo.Type(), L: []*Term{BoolLit(constant.BoolVal(oo.Val()))}}
			case SStr:
				return &Val{T: oo.Type(), L: []*Term{strLit(constant.StringVal(oo.Val()))}}
			}
		}
	case *types.Func:
		// a package-level function used as a value: the same constant the executor uses
		if oo.Pkg() != nil {
			t := UF("fn!"+oo.Pkg().Path()+"."+oo.Name(), SInt)
			return &Val{T: oo.Type(), L: []*Term{t}}
		}
	case *types.Var:
		if oo.Pkg() != nil && oo.Parent() == oo.Pkg().Scope() {
			a := &Addr{Kind: AGlobal, Base: oo.Pkg().Name() + "." + oo.Name(), T: oo.Type()}
			return e.run.load(e.st, a, oo.Type(), e.te)
		}
	}
	return nil
}

// localByName finds the current value of a source-level local variable.
func (e *SpecEnv) localByName(name string) *Val {
	fr := e.fr
	var best *ssa.Alloc
	// <name><k>: the variable called name that loop k assigns (e.g. rangeindex1: hidden index of loop 1)
	if fr.loops != nil {
		for hi, h := range fr.loops.headers {
			for _, m := range fr.loops.modCells[h] {
				if fmt.Sprintf("%s%d", m.Comment, hi) == name {
					if _, executed := fr.regs[m]; executed {
						// innermost loop that assigns it wins only if the names coincide exactly; keep the first match per ordinal
						inner := false
						for hj, h2 := range fr.loops.headers {
							if hj != hi && fr.loops.body[h][h2] {
								for _, m2 := range fr.loops.modCells[h2] {
									if m2 == m {
										inner = true // assigned by a nested loop: it is that loop's variable
									}
								}
							}
						}
						if !inner {
							p := fr.regs[m]
							a := e.run.addrOf(p, e.te)
							return e.run.load(e.st, a, derefType(m.Type()), e.te)
						}
					}
				}
			}
		}
	}
	for _, b := range fr.fn.Blocks {
		for _, in := range b.Instrs {
			a, ok := in.(*ssa.Alloc)
			if !ok || a.Comment != name {
				continue
			}
			if _, executed := fr.regs[a]; !executed {
				continue
			}
			if best == nil {
				best = a
			}
			// prefer the variable assigned in the loop the invariant belongs to
			if e.loopHdr != nil && fr.loops != nil {
				for _, m := range fr.loops.modCells[e.loopHdr] {
					if m == a {
						best = a
					}
				}
			}
		}
	}
	if best == nil {
		// a variable of the function that has no value on this path (its declaration was not executed): the
		// clause has to hold whatever it is - an unconstrained value (conservative, never an assumption)
		for _, b := range fr.fn.Blocks {
			for _, in := range b.Instrs {
				if a, ok := in.(*ssa.Alloc); ok && a.Comment == name {
					return freshVal(derefType(a.Type()), "nopath."+name, e.te)
				}
			}
		}
		return nil
	}
	p := fr.regs[best]
	a := e.run.addrOf(p, e.te)
	if a.Kind == ALocal && e.st.cells[a.Cell] == nil {
		// declared on another branch of this frame than the one this state went through: no value on this path
		return freshVal(derefType(best.Type()), "nopath."+name, e.te)
	}
	return e.run.load(e.st, a, derefType(best.Type()), e.te)
}

func (e *SpecEnv) binary(x *SExpr) *Val {
	switch x.Op {
	case "&&":
		l := e.evalBool(x.Args[0])
		if l.IsFalse() {
			return boolVal(False) // short-circuit: the right operand may mention names that do not exist on this path
		}
		return boolVal(And(l, e.evalBool(x.Args[1])))
	case "||":
		l := e.evalBool(x.Args[0])
		if l.IsTrue() {
			return boolVal(True)
		}
		return boolVal(Or(l, e.evalBool(x.Args[1])))
	case "==>":
		l := e.evalBool(x.Args[0])
		if l.IsFalse() {
			return boolVal(True)
		}
		return boolVal(Implies(l, e.evalBool(x.Args[1])))
	case "<==>":
		return boolVal(Iff(e.evalBool(x.Args[0]), e.evalBool(x.Args[1])))
	case "==", "!=":
		a := e.eval(x.Args[0])
		b := e.eval(x.Args[1])
		eq := e.equal(x, a, b)
		if x.Op == "!=" {
			eq = Not(eq)
		}
		return boolVal(eq)
	}
	a := e.eval(x.Args[0])
	b := e.eval(x.Args[1])
	if len(a.L) != 1 || len(b.L) != 1 {
		e.fail(x, "operator %s on composite values", x.Op)
	}
	at, bt := a.L[0], b.L[0]
	if at.Sort == SStr && bt.Sort == SStr {
		switch x.Op {
		case "<":
			return boolVal(StrLt(at, bt))
		case ">":
			return boolVal(StrLt(bt, at))
		case "<=":
			return boolVal(Not(StrLt(bt, at)))
		case ">=":
			return boolVal(Not(StrLt(at, bt)))
		case "+":
			return &Val{T: tStr, L: []*Term{UF("strcat", SStr, at, bt)}}
		}
	}
	if at.Sort == SBV64 || at.Sort == SBV8 || at.Sort == SBV32 {
		return e.bvBinary(x, at, bt)
	}
	if at.Sort != SInt || bt.Sort != SInt {
		e.fail(x, "operator %s on sorts %s and %s", x.Op, at.Sort, bt.Sort)
	}
	switch x.Op {
	case "+":
		return intVal(Add(at, bt))
	case "-":
		return intVal(Sub(at, bt))
	case "*":
		return intVal(Mul(at, bt))
	case "/":
		// specification-level division is SMT-LIB (floor/Euclidean) division; it coincides with Go's on
		// non-negative dividends with positive divisors, which is how contracts use it
		return intVal(specDiv(at, bt))
	case "%":
		return intVal(specMod(at, bt))
	case "<":
		return boolVal(Lt(at, bt))
	case "<=":
		return boolVal(Le(at, bt))
	case ">":
		return boolVal(Gt(at, bt))
	case ">=":
		return boolVal(Ge(at, bt))
	}
	e.fail(x, "unsupported operator %s", x.Op)
	return nil
}

func (e *SpecEnv) bvBinary(x *SExpr, a, b *Term) *Val {
	bv := func(op string) *Val { return &Val{L: []*Term{App(op, a.Sort, a, b)}} }
	switch x.Op {
	case "+":
		return bv("bvadd")
	case "-":
		return bv("bvsub")
	case "*":
		return bv("bvmul")
	case "<":
		return boolVal(App("bvslt", SBool, a, b))
	case "<=":
		return boolVal(App("bvsle", SBool, a, b))
	case ">":
		return boolVal(App("bvsgt", SBool, a, b))
	case ">=":
		return boolVal(App("bvsge", SBool, a, b))
	}
	e.fail(x, "unsupported bit-vector operator %s", x.Op)
	return nil
}

func isNilVal(v *Val) bool {
	b, ok := v.T.(*types.Basic)
	return ok && b.Kind() == types.UntypedNil
}

func isIfaceType(t types.Type) bool {
	if t == nil {
		return false
	}
	t = types.Unalias(t)
	if _, isTP := t.(*types.TypeParam); isTP {
		return false
	}
	_, ok := t.Underlying().(*types.Interface)
	return ok
}

func (e *SpecEnv) equal(x *SExpr, a, b *Val) *Term {
	if isNilVal(a) && !isNilVal(b) {
		a, b = b, a
	}
	if isNilVal(b) {
		if isNilVal(a) {
			return True
		}
		if len(a.L) == 4 { // slice == nil
			return Eq(a.L[0], IntLit(0))
		}
		z := zeroVal(a.T, e.te)
		if a.T == nil {
			z = &Val{L: []*Term{zeroTerm(a.L[0].Sort)}}
		}
		var cs []*Term
		for i := range a.L {
			cs = append(cs, Eq(a.L[i], z.L[i]))
		}
		return And(cs...)
	}
	// interface vs concrete
	if len(a.L) == 1 && a.L[0].Sort == SAny && !(len(b.L) == 1 && b.L[0].Sort == SAny) {
		return Eq(a.L[0], boxAny(b, e.te))
	}
	if len(b.L) == 1 && b.L[0].Sort == SAny && !(len(a.L) == 1 && a.L[0].Sort == SAny) {
		return Eq(boxAny(a, e.te), b.L[0])
	}
	if len(a.L) != len(b.L) {
		e.fail(x, "comparison of values with different layouts (%d vs %d leaves)", len(a.L), len(b.L))
	}
	var cs []*Term
	for i := range a.L {
		if a.L[i].Sort != b.L[i].Sort {
			e.fail(x, "comparison of sorts %s and %s", a.L[i].Sort, b.L[i].Sort)
		}
		cs = append(cs, Eq(a.L[i], b.L[i]))
	}
	return And(cs...)
}

func (e *SpecEnv) sel(x *SExpr) *Val {
	// qualified identifier?
	if id := x.Args[0]; id.Kind == "ident" {
		if !e.isLocalName(id.Name) {
			if p := e.run.v.findImport(e.typesPkg(), id.Name); p != nil {
				if o := p.Scope().Lookup(x.Name); o != nil {
					if v := e.objVal(o); v != nil {
						return v
					}
				}
				e.fail(x, "cannot evaluate %s.%s", id.Name, x.Name)
			}
		}
	}
	v := e.eval(x.Args[0])
	if v.T == nil {
		e.fail(x, "selector on untyped value")
	}
	t := e.te.apply(v.T)
	if strings.HasPrefix(x.Name, "$") {
		pt := derefType(t)
		if pt == nil {
			e.fail(x, "ghost field on non-pointer %s", t)
		}
		key := typeName(e.te.apply(pt)) + "." + x.Name
		tn, ok := ghostDecls[key]
		if !ok {
			e.fail(x, "undeclared ghost field %s", key)
		}
		gt := e.resolveType(&SType{Kind: "name", Name: tn})
		ls := layoutTE(gt, nil)
		return &Val{T: gt, L: []*Term{Select(e.st.comp(key, ArrSort(SInt, ls[0].Sort)), v.L[0])}}
	}
	if pt := derefType(t); pt != nil {
		st := structOf(e.te.apply(pt))
		if st == nil {
			e.fail(x, "selector on pointer to non-struct %s", t)
		}
		i := fieldIndex(st, x.Name)
		if i < 0 {
			e.fail(x, "no field %s in %s", x.Name, t)
		}
		a := e.run.addrOf(v, e.te)
		fa := e.run.fieldAddr(a, st, i, e.te)
		out := e.run.load(e.st, fa, st.Field(i).Type(), e.te)
		return out
	}
	st := structOf(t)
	if st == nil {
		e.fail(x, "selector .%s on non-struct %s", x.Name, t)
	}
	i := fieldIndex(st, x.Name)
	if i < 0 {
		e.fail(x, "no field %s in %s", x.Name, t)
	}
	lo, hi := fieldRange(st, i, e.te)
	return &Val{T: st.Field(i).Type(), L: v.L[lo:hi]}
}

// isLocalName: does name denote a bound variable, parameter, captured variable or local (and therefore not a package)?
func (e *SpecEnv) isLocalName(name string) bool {
	if _, ok := e.vars[name]; ok {
		return true
	}
	if e.fr == nil {
		return false
	}
	if e.fr.params[name] != nil {
		return true
	}
	for fv := range e.fr.free {
		if fv.Name() == name {
			return true
		}
	}
	return e.localByNameSafe(name) != nil
}

func (e *SpecEnv) localByNameSafe(name string) (v *Val) {
	defer func() {
		if r := recover(); r != nil {
			v = nil
		}
	}()
	return e.localByName(name)
}

func fieldIndex(st *types.Struct, name string) int {
	for i := 0; i < st.NumFields(); i++ {
		if st.Field(i).Name() == name {
			return i
		}
	}
	return -1
}

func (e *SpecEnv) index(x *SExpr) *Val {
	v := e.eval(x.Args[0])
	if len(v.L) == 1 && v.L[0].Sort.IsArray() {
		i := e.eval(x.Args[1])
		return intValSort(Select(v.L[0], i.L[0]))
	}
	if v.T == nil {
		if len(v.L) == 1 && v.L[0].Sort.IsArray() {
			i := e.eval(x.Args[1])
			return &Val{L: []*Term{Select(v.L[0], i.L[0])}}
		}
		e.fail(x, "index on untyped value")
	}
	t := types.Unalias(e.te.apply(v.T)).Underlying()
	switch tt := t.(type) {
	case *types.Slice:
		i := e.evalInt(x.Args[1])
		a := &Addr{Kind: AElem, Ref: v.L[0], Idx: Add(v.L[1], i), Base: "[]" + typeName(e.te.apply(tt.Elem())), T: tt.Elem()}
		return e.run.load(e.st, a, tt.Elem(), e.te)
	case *types.Basic:
		i := e.evalInt(x.Args[1])
		return intVal(UF("strat", SInt, v.L[0], i))
	case *types.Map:
		k := e.eval(x.Args[1])
		ks := layoutTE(tt.Key(), e.te)
		mname := "map:" + typeName(e.te.apply(v.T))
		out := &Val{T: tt.Elem()}
		if isIface := isIfaceType(e.te.apply(k.T)); !isIface && ks[0].Sort == SAny {
			k = &Val{T: tt.Key(), L: []*Term{boxAny(k, e.te)}}
		}
		// Go semantics: the zero value for an absent key
		pres := Select(Select(e.st.comp(mname+"#present", ArrSort(SInt, ArrSort(ks[0].Sort, SBool))), v.L[0]), k.L[0])
		z := zeroVal(tt.Elem(), e.te)
		for i, l := range layoutTE(tt.Elem(), e.te) {
			name := joinPath(mname+"#val", l.Path)
			out.L = append(out.L, Ite(pres, Select(Select(e.st.comp(name, ArrSort(SInt, ArrSort(ks[0].Sort, l.Sort))), v.L[0]), k.L[0]), z.L[i]))
		}
		return out
	}
	e.fail(x, "index on %s", v.T)
	return nil
}

func (e *SpecEnv) call(x *SExpr) *Val {
	callee := x.Args[0]
	args := x.Args[1:]
	if callee.Kind == "ident" {
		if _, shadow := e.vars[callee.Name]; !shadow {
			if e.cs != nil {
				if sf, ok := e.cs.Specs[callee.Name]; ok {
					return e.applySpec(x, sf, args)
				}
			}
			switch callee.Name {
			case "store": // store(a, i, v): the array a updated at index i
				a := e.eval(args[0])
				if len(a.L) != 1 || !a.L[0].Sort.IsArray() {
					e.fail(x, "store() of a non-array value")
				}
				return &Val{T: a.T, L: []*Term{Store(a.L[0], e.eval(args[1]).L[0], e.eval(args[2]).L[0])}}
			case "count": // count(k, lo, hi, P): number of k in [lo, hi) with P(k)
				if len(args) != 4 || args[0].Kind != "ident" {
					e.fail(x, "count(k, lo, hi, P)")
				}
				lo := e.evalInt(args[1])
				hi := e.evalInt(args[2])
				kb := Bound(freshName("q."+args[0].Name), SInt)
				body := e.with(map[string]*Val{args[0].Name: intVal(kb)}).evalBool(args[3])
				return intVal(countTerm(kb, body, lo, hi))
			case "len":
				v := e.eval(args[0])
				switch {
				case len(v.L) == 4:
					return intVal(v.L[2])
				case len(v.L) == 1 && v.L[0].Sort == SStr:
					return intVal(StrLen(v.L[0]))
				}
				e.fail(x, "len of unsupported value")
			case "cap":
				v := e.eval(args[0])
				if len(v.L) == 4 {
					return intVal(v.L[3])
				}
				e.fail(x, "cap of unsupported value")
			case "mapHas": // mapHas(m, k): map membership
				m := e.eval(args[0])
				k := e.eval(args[1])
				mt, ok := types.Unalias(e.te.apply(m.T)).Underlying().(*types.Map)
				if !ok {
					e.fail(x, "mapHas() on non-map")
				}
				ks := layoutTE(mt.Key(), e.te)
				mname := "map:" + typeName(e.te.apply(m.T))
				return boolVal(Select(Select(e.st.comp(mname+"#present", ArrSort(SInt, ArrSort(ks[0].Sort, SBool))), m.L[0]), k.L[0]))
			case "ite":
				c := e.evalBool(args[0])
				a := e.eval(args[1])
				b := e.eval(args[2])
				out := &Val{T: a.T}
				for i := range a.L {
					out.L = append(out.L, Ite(c, a.L[i], b.L[i]))
				}
				return out
			case "at": // at(L, e): e evaluated in the state snapshot labelled L
				if e.fr == nil {
					panic(skipClause{})
				}
				if len(args) != 2 || args[0].Kind != "ident" {
					e.fail(x, "at(Label, expr)")
				}
				snap, ok := e.fr.snaps[args[0].Name]
				if !ok {
					// label not reached on this path: value irrelevant (guard with reached(L)); the current state has
					// every local variable the expression may mention
					snap = e.st
				}
				n := *e
				n.st = snap
				n.mode = "inv"
				return n.eval(args[1])
			case "reached":
				if e.fr == nil {
					panic(skipClause{})
				}
				if len(args) != 1 || args[0].Kind != "ident" {
					e.fail(x, "reached(Label)")
				}
				_, ok := e.fr.snaps[args[0].Name]
				return boolVal(BoolLit(ok))
			case "arr": // arr(p): contents of the backing array of an integer slice, as an array value
				v := e.eval(args[0])
				sl, ok := types.Unalias(e.te.apply(v.T)).Underlying().(*types.Slice)
				if !ok || len(v.L) != 4 {
					e.fail(x, "arr() of a non-slice")
				}
				name := "[]" + typeName(e.te.apply(sl.Elem()))
				return &Val{T: pseudoType("intarray"), L: []*Term{Select(e.st.comp(name, ArrSort(SInt, ArrSort(SInt, SInt))), v.L[0])}}
			case "off": // off(p): absolute index of p[0] in its backing array
				v := e.eval(args[0])
				if len(v.L) != 4 {
					e.fail(x, "off() of a non-slice")
				}
				return intVal(v.L[1])
			case "stringOf": // stringOf(p): string(p) for a byte slice p
				v := e.eval(args[0])
				sl, ok := types.Unalias(e.te.apply(v.T)).Underlying().(*types.Slice)
				if !ok || len(v.L) != 4 {
					e.fail(x, "stringOf() of a non-slice")
				}
				el := typeName(sl.Elem())
				comp := e.st.comp("[]"+el, ArrSort(SInt, ArrSort(SInt, SInt)))
				return &Val{T: tStr, L: []*Term{UF("str_of_"+el+"s", SStr, Select(comp, v.L[0]), v.L[1], v.L[2])}}
			case "subslice": // subslice(p, lo, hi): the slice value p[lo:hi]
				v := e.eval(args[0])
				lo := e.evalInt(args[1])
				hi := e.evalInt(args[2])
				if len(v.L) != 4 {
					e.fail(x, "subslice() of a non-slice")
				}
				return &Val{T: v.T, L: []*Term{v.L[0], Add(v.L[1], lo), Sub(hi, lo), Sub(v.L[3], lo)}}
			case "runeLen": // runeLen(s): number of code points of a string (= len([]rune(s)))
				v := e.eval(args[0])
				return intVal(UF("len_int32s_of_str", SInt, v.L[0]))
			case "addrOfElem": // addrOfElem(s, i): the pointer &s[i]
				v := e.eval(args[0])
				i := e.evalInt(args[1])
				sl, ok := types.Unalias(e.te.apply(v.T)).Underlying().(*types.Slice)
				if !ok || len(v.L) != 4 {
					e.fail(x, "addrOfElem() of a non-slice")
				}
				a := &Addr{Kind: AElem, Ref: v.L[0], Idx: Add(v.L[1], i), Base: "[]" + typeName(e.te.apply(sl.Elem())), T: sl.Elem()}
				return ptrVal(types.NewPointer(sl.Elem()), a)
			case "elemIndex": // elemIndex(p): absolute index of the slice element p points to
				v := e.eval(args[0])
				t := v.L[0]
				if t.Kind == KApp && strings.HasPrefix(t.Op, "elemptr!") {
					return intVal(t.Args[1])
				}
				return intVal(UF("elemidx", SInt, t))
			case "tagged": // tagged(f, name): f is a closure whose contract carries "tag name"
				if len(args) != 2 || args[1].Kind != "ident" {
					e.fail(x, "tagged(value, tagname)")
				}
				fv := e.eval(args[0])
				return boolVal(UF("tag!"+args[1].Name, SBool, fv.L[0]))
			case "box": // box(v): the interface value holding v
				v := e.eval(args[0])
				return &Val{T: types.Universe.Lookup("any").Type(), L: []*Term{boxAny(v, e.te)}}
			case "fresh": // fresh(p): p was allocated during this call
				v := e.eval(args[0])
				// allocated after the pre-state: above the pre-state's allocation watermark (every reference that
				// existed then is at or below it)
				if e.old != nil && e.old.top != nil {
					return boolVal(Gt(v.L[0], e.old.top))
				}
				return boolVal(UF("isfresh", SBool, v.L[0]))
			}
			if bv := e.bvBuiltin(x, callee.Name, args); bv != nil {
				return bv
			}
			if e.cs != nil {
				if sf, ok := e.cs.Specs[callee.Name]; ok {
					return e.applySpec(x, sf, args)
				}
			}
			if v := e.run.v.pureGoCall(e, x, e.typesPkg(), callee.Name, args); v != nil {
				return v
			}
		}
	}
	if callee.Kind == "sel" && callee.Args[0].Kind == "ident" {
		pk := callee.Args[0].Name
		if !e.isLocalName(pk) {
			if p := e.run.v.findImport(e.typesPkg(), pk); p != nil {
				if cs := e.run.v.contracts[p.Path()]; cs != nil {
					if sf, ok := cs.Specs[callee.Name]; ok {
						n := *e
						n.cs = cs
						return n.applySpecArgs(x, sf, e.evalArgs(args))
					}
				}
				if v := e.run.v.pureGoCall(e, x, p, callee.Name, args); v != nil {
					return v
				}
				e.fail(x, "no specification function or pure function %s.%s", pk, callee.Name)
			}
		}
	}
	// pure interface method: x.M(args)
	if callee.Kind == "sel" {
		recv := e.evalSafe(callee.Args[0])
		if recv != nil && recv.T != nil && isIfaceType(e.te.apply(recv.T)) {
			if spec := e.run.v.methodSpecOf(e.te.apply(recv.T), callee.Name); spec != nil && spec.Has("pure") {
				it := types.Unalias(e.te.apply(recv.T)).Underlying().(*types.Interface)
				for i := 0; i < it.NumMethods(); i++ {
					if m := it.Method(i); m.Name() == callee.Name {
						sig := m.Type().(*types.Signature)
						avs := append([]*Val{recv}, e.evalArgs(args)...)
						var rt types.Type = sig.Results()
						if sig.Results().Len() == 1 {
							rt = sig.Results().At(0).Type()
						}
						return e.run.v.pureResult(spec, spec.Pkg, nil, sig, avs, e.te, rt)
					}
				}
			}
		}
	}
	// pure method of a concrete type: x.M(args) with (T).M or (*T).M under a pure contract
	if callee.Kind == "sel" {
		recv := e.evalSafe(callee.Args[0])
		if recv != nil && recv.T != nil && !isIfaceType(e.te.apply(recv.T)) {
			rtyp := e.te.apply(recv.T)
			if sel := e.run.v.prog.MethodSets.MethodSet(rtyp).Lookup(e.typesPkg(), callee.Name); sel != nil {
				if fn := e.run.v.prog.MethodValue(sel); fn != nil {
					if spec, cs := e.run.v.specFor(fn); spec != nil && spec.Has("pure") {
						sig := fn.Signature
						avs := append([]*Val{recv}, e.evalArgs(args)...)
						var rt types.Type = sig.Results()
						if sig.Results().Len() == 1 {
							rt = sig.Results().At(0).Type()
						}
						return e.run.v.pureResult(spec, cs, fn, sig, avs, e.te, rt)
					}
				}
			}
		}
	}
	// call of a function-typed value: pure application
	fv := e.eval(callee)
	if len(fv.L) == 1 && fv.L[0].Sort == SInt && fv.T != nil {
		if sig, ok := types.Unalias(e.te.apply(fv.T)).Underlying().(*types.Signature); ok {
			avs := e.evalArgs(args)
			return e.run.applyPureFuncValue(fv, sig, avs, e.te)
		}
	}
	e.fail(x, "cannot call %s", callee)
	return nil
}

func (e *SpecEnv) evalSafe(x *SExpr) (v *Val) {
	defer func() {
		if r := recover(); r != nil {
			if _, ok := r.(specErr); ok {
				v = nil
				return
			}
			panic(r)
		}
	}()
	return e.eval(x)
}

func (e *SpecEnv) evalArgs(args []*SExpr) []*Val {
	var out []*Val
	for _, a := range args {
		out = append(out, e.eval(a))
	}
	return out
}

func (e *SpecEnv) applySpec(x *SExpr, sf *SpecFunc, args []*SExpr) *Val {
	return e.applySpecArgs(x, sf, e.evalArgs(args))
}

func (e *SpecEnv) applySpecArgs(x *SExpr, sf *SpecFunc, avs []*Val) *Val {
	if len(avs) != len(sf.Params) {
		e.fail(x, "spec %s expects %d arguments", sf.Name, len(sf.Params))
	}
	n := *e
	n.cs = sf.Pkg
	if sf.Body == nil {
		// uninterpreted
		rt := n.resolveType(sf.Ret)
		var flat []*Term
		for i, a := range avs {
			pt := n.resolveType(sf.Params[i].Type)
			a = e.adapt(x, a, pt)
			flat = append(flat, a.L...)
		}
		out := &Val{T: rt}
		for _, l := range layoutTE(rt, e.te) {
			out.L = append(out.L, UF("spec!"+sf.Pkg.Label+"."+sf.Name+leafSuffix(l.Path), l.Sort, flat...))
		}
		return out
	}
	vars := map[string]*Val{}
	for i, p := range sf.Params {
		pt := n.resolveType(p.Type)
		vars[p.Name] = e.adapt(x, avs[i], pt)
	}
	n.vars = vars
	n.fr = nil // spec bodies see only their parameters
	n.fn = nil
	n.result = nil
	out := n.eval(sf.Body)
	if sf.Ret != nil && out != nil && len(out.L) == 1 && out.L[0].Sort == SAny {
		// an interface-valued specification function has its declared type (so that pure methods can be called on it)
		if rt := n.resolveTypeSafe(sf.Ret); rt != nil && isIfaceType(rt) {
			return &Val{T: rt, L: out.L, A: out.A}
		}
	}
	return out
}

func leafSuffix(p string) string {
	if p == "" {
		return ""
	}
	return "!" + p
}

// adapt converts an argument to the parameter type (boxing into interfaces, typing nil).
func (e *SpecEnv) adapt(x *SExpr, a *Val, pt types.Type) *Val {
	if isNilVal(a) {
		return zeroVal(pt, e.te)
	}
	if isIfaceType(e.te.apply(pt)) && !(len(a.L) == 1 && a.L[0].Sort == SAny) {
		return &Val{T: pt, L: []*Term{boxAny(a, e.te)}}
	}
	ls := layoutTE(pt, e.te)
	if len(ls) != len(a.L) {
		e.fail(x, "argument layout mismatch for parameter type %s", pt)
	}
	for i := range ls {
		if ls[i].Sort != a.L[i].Sort {
			e.fail(x, "argument sort mismatch for parameter type %s (%s vs %s)", pt, ls[i].Sort, a.L[i].Sort)
		}
	}
	return &Val{T: pt, L: a.L, A: a.A}
}

// bvBuiltin provides bit-vector helper functions for the IR-denotation layer.
func (e *SpecEnv) bvBuiltin(x *SExpr, name string, args []*SExpr) *Val {
	bin := func(op string, s Sort) *Val {
		a := e.eval(args[0]).L[0]
		b := e.eval(args[1]).L[0]
		if s == "" {
			s = a.Sort
		}
		return &Val{L: []*Term{App(op, s, a, b)}}
	}
	switch name {
	case "bv64":
		n := e.evalInt(args[0])
		if iv, ok := n.IntVal(); ok {
			return &Val{L: []*Term{BVLit(uint64(iv.Int64()), 64)}}
		}
		return &Val{L: []*Term{App("(_ int2bv 64)", SBV64, n)}}
	case "bvadd", "bvsub", "bvmul", "bvand", "bvor", "bvxor", "bvshl", "bvlshr", "bvashr", "bvsdiv", "bvudiv", "bvsrem", "bvurem":
		return bin(name, "")
	case "bvslt", "bvsle", "bvsgt", "bvsge", "bvult", "bvule", "bvugt", "bvuge":
		return bin(name, SBool)
	case "zext8to64":
		a := e.eval(args[0]).L[0]
		return &Val{L: []*Term{App("(_ zero_extend 56)", SBV64, a)}}
	case "sext8to64":
		a := e.eval(args[0]).L[0]
		return &Val{L: []*Term{App("(_ sign_extend 56)", SBV64, a)}}
	case "trunc64to8":
		a := e.eval(args[0]).L[0]
		return &Val{L: []*Term{App("(_ extract 7 0)", SBV8, a)}}
	}
	return nil
}

func atoi(s string) int { n, _ := strconv.Atoi(s); return n }

func specDiv(a, b *Term) *Term {
	x, okx := a.IntVal()
	y, oky := b.IntVal()
	if okx && oky && y.Sign() > 0 && x.Sign() >= 0 {
		return IntBig(new(big.Int).Quo(x, y))
	}
	return App("div", SInt, a, b)
}

func specMod(a, b *Term) *Term {
	x, okx := a.IntVal()
	y, oky := b.IntVal()
	if okx && oky && y.Sign() > 0 && x.Sign() >= 0 {
		return IntBig(new(big.Int).Rem(x, y))
	}
	return App("mod", SInt, a, b)
}

// assign performs "set LHS := value" on the environment's state: LHS is x.f, x.$ghost or $ghost.
func (e *SpecEnv) assign(lhs *SExpr, val *Val) {
	switch lhs.Kind {
	case "ident":
		if strings.HasPrefix(lhs.Name, "$") {
			name := "g:" + lhs.Name
			_ = e.st.comp(name, val.L[0].Sort)
			e.st.heap[name] = val.L[0]
			return
		}
	case "sel":
		obj := e.eval(lhs.Args[0])
		t := e.te.apply(obj.T)
		pt := derefType(t)
		if pt == nil {
			e.fail(lhs, "set: receiver is not a pointer")
		}
		if strings.HasPrefix(lhs.Name, "$") {
			key := typeName(e.te.apply(pt)) + "." + lhs.Name
			h := e.st.comp(key, ArrSort(SInt, val.L[0].Sort))
			e.st.heap[key] = Store(h, obj.L[0], val.L[0])
			return
		}
		st := structOf(e.te.apply(pt))
		i := fieldIndex(st, lhs.Name)
		if i < 0 {
			e.fail(lhs, "set: no field %s", lhs.Name)
		}
		a := e.run.addrOf(obj, e.te)
		fa := e.run.fieldAddr(a, st, i, e.te)
		e.run.store(e.st, fa, e.adapt(lhs, val, st.Field(i).Type()), e.te)
		return
	}
	e.fail(lhs, "set: unsupported left-hand side")
}
