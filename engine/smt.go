package main

// SMT-LIB query printing and the solver race.

import (
	"bytes"
	"runtime"
	"context"
	"fmt"
	"os"
	"os/exec"
	"path/filepath"
	"strings"
	"sync"
	"time"
)

// ---------- the Any datatype (interface values) ----------

type AnyField struct {
	Name string
	Sort Sort
}

type AnyCtor struct {
	Name   string
	GoType string
	Fields []AnyField
}

var (
	anyCtors   []*AnyCtor
	anyCtorBy  = map[string]*AnyCtor{}
	anyCtorMu  sync.Mutex
	extraSorts = map[Sort]bool{}
)

func getAnyCtor(goType string, leafSorts []Sort) *AnyCtor {
	anyCtorMu.Lock()
	defer anyCtorMu.Unlock()
	if c, ok := anyCtorBy[goType]; ok {
		return c
	}
	id := len(anyCtors)
	c := &AnyCtor{Name: fmt.Sprintf("box!%d", id), GoType: goType}
	for i, s := range leafSorts {
		c.Fields = append(c.Fields, AnyField{Name: fmt.Sprintf("ub!%d!%d", id, i), Sort: s})
	}
	anyCtors = append(anyCtors, c)
	anyCtorBy[goType] = c
	return c
}

func isBuiltinSort(s Sort) bool {
	switch s {
	case SInt, SBool, SReal, SAny:
		return true
	}
	return strings.HasPrefix(string(s), "(_ BitVec") || s.IsArray()
}

// ---------- query ----------

type Query struct {
	Name    string
	Axioms  []*Term
	Hyps    []*Term
	Goal    *Term // to be proved; nil => satisfiability (cover) query over Hyps
	IsCover bool
	Values  []*Term // terms whose model value is requested (get-value) instead of a full model
	SeedOff int     // added to the solver seed (retries of an undecided ledger clause)
}

func (q *Query) SMT(withModel bool) string {
	c := newSigCollector()
	for _, a := range q.Values {
		c.walk(a)
	}
	for _, a := range q.Axioms {
		c.walk(a)
	}
	for _, h := range q.Hyps {
		c.walk(h)
	}
	if q.Goal != nil {
		c.walk(q.Goal)
	}
	usesAny := c.sorts[SAny]
	var b strings.Builder
	b.WriteString("; " + q.Name + "\n")
	if withModel {
		b.WriteString("(set-option :produce-models true)\n")
	}
	b.WriteString("(set-logic ALL)\n")
	anyCtorMu.Lock()
	ctors := append([]*AnyCtor(nil), anyCtors...)
	anyCtorMu.Unlock()
	if usesAny {
		for _, ct := range ctors {
			for _, f := range ct.Fields {
				c.sort(f.Sort)
			}
		}
	}
	var us []string
	for s := range c.sorts {
		if !isBuiltinSort(s) {
			us = append(us, string(s))
		}
	}
	sortStrings(us)
	for _, s := range us {
		b.WriteString("(declare-sort " + s + " 0)\n")
	}
	if usesAny {
		b.WriteString("(declare-datatypes ((Any 0)) (((anynil)")
		for _, ct := range ctors {
			b.WriteString(" (" + smtName(ct.Name))
			for _, f := range ct.Fields {
				b.WriteString(" (" + smtName(f.Name) + " " + string(f.Sort) + ")")
			}
			b.WriteString(")")
		}
		b.WriteString(")))\n")
	}
	for _, n := range sortedKeys(c.ufs) {
		u := c.ufs[n]
		b.WriteString("(declare-fun " + smtName(u.Name) + " (")
		for i, s := range u.Args {
			if i > 0 {
				b.WriteString(" ")
			}
			b.WriteString(string(s))
		}
		b.WriteString(") " + string(u.Ret) + ")\n")
	}
	for _, n := range sortedKeys(c.vars) {
		if _, isUF := c.ufs[n]; isUF {
			continue
		}
		b.WriteString("(declare-fun " + smtName(n) + " () " + string(c.vars[n]) + ")\n")
	}
	for _, a := range q.Axioms {
		b.WriteString("(assert " + a.String() + ")\n")
	}
	for _, h := range q.Hyps {
		b.WriteString("(assert " + h.String() + ")\n")
	}
	if q.Goal != nil {
		b.WriteString("(assert (not " + q.Goal.String() + "))\n")
	}
	b.WriteString("(check-sat)\n")
	if withModel && len(q.Values) > 0 {
		b.WriteString("(get-value (")
		for _, t := range q.Values {
			b.WriteString(" " + t.String())
		}
		b.WriteString("))\n")
	} else if withModel {
		b.WriteString("(get-model)\n")
	}
	return b.String()
}

func sortStrings(s []string) {
	for i := 1; i < len(s); i++ {
		for j := i; j > 0 && s[j] < s[j-1]; j-- {
			s[j], s[j-1] = s[j-1], s[j]
		}
	}
}

type SolverResult struct {
	Verdict string // unsat | sat | unknown | timeout | error
	Solver  string
	TimeS   float64
	Output  string
	All     map[string]string
}

type solverSpec struct {
	name string
	args func(file string, timeoutS int, seed int) []string
}

var solvers = []solverSpec{
	{"z3-new", func(f string, t, seed int) []string {
		return []string{"z3-new", fmt.Sprintf("-T:%d", t), fmt.Sprintf("smt.random_seed=%d", seed), f}
	}},
	{"z3", func(f string, t, seed int) []string {
		return []string{"z3", fmt.Sprintf("-T:%d", t), fmt.Sprintf("smt.random_seed=%d", seed), f}
	}},
	// the same solver under other seeds: a portfolio is far more stable than any single configuration
	{"z3-new/s+1", func(f string, t, seed int) []string {
		return []string{"z3-new", fmt.Sprintf("-T:%d", t), fmt.Sprintf("smt.random_seed=%d", seed+1), f}
	}},
	{"z3-new/s+2", func(f string, t, seed int) []string {
		return []string{"z3-new", fmt.Sprintf("-T:%d", t), fmt.Sprintf("smt.random_seed=%d", seed+2), fmt.Sprintf("sat.random_seed=%d", seed+2), f}
	}},
	{"cvc5", func(f string, t, seed int) []string {
		return []string{"cvc5", fmt.Sprintf("--tlimit=%d", t*1000), fmt.Sprintf("--seed=%d", seed), "--produce-models", f}
	}},
}

var (
	scratchDir  string
	queryCount  int
	queryMu     sync.Mutex
	solverWins  = map[string]int{}
	solverTime  = map[string]float64{}
	verifSeed   = 0
	keepQueries = false
)

// at most one solver process per core: a time limit measured under oversubscription says nothing about the query
var procSem = make(chan struct{}, maxInt(2, runtime.NumCPU()/2))

func maxInt(a, b int) int {
	if a > b {
		return a
	}
	return b
}

func runOne(ctx context.Context, sp solverSpec, file string, timeoutS int, seedOff ...int) (string, string, float64) {
	select {
	case procSem <- struct{}{}:
	case <-ctx.Done():
		return "timeout", "cancelled before start", 0
	}
	defer func() { <-procSem }()
	seed := verifSeed
	for _, o := range seedOff {
		seed += o
	}
	args := sp.args(file, timeoutS, seed)
	start := time.Now()
	cctx, cancel := context.WithTimeout(ctx, time.Duration(timeoutS+2)*time.Second)
	defer cancel()
	cmd := exec.CommandContext(cctx, args[0], args[1:]...)
	var out bytes.Buffer
	cmd.Stdout = &out
	cmd.Stderr = &out
	_ = cmd.Run()
	el := time.Since(start).Seconds()
	o := out.String()
	first := strings.TrimSpace(o)
	if i := strings.IndexByte(first, '\n'); i >= 0 {
		first = strings.TrimSpace(first[:i])
	}
	switch first {
	case "unsat", "sat", "unknown":
		return first, o, el
	case "timeout":
		return "timeout", o, el
	}
	if cctx.Err() != nil {
		return "timeout", o, el
	}
	if strings.Contains(o, "interrupted by timeout") || strings.Contains(o, "timeout") {
		return "timeout", o, el
	}
	return "error", o, el
}

// Solve races the solvers on the query. want = "unsat" for proof obligations, "sat" for covers.
func Solve(q *Query, timeoutS int, withModel bool) SolverResult {
	text := q.SMT(withModel)
	queryMu.Lock()
	queryCount++
	id := queryCount
	queryMu.Unlock()
	file := filepath.Join(scratchDir, fmt.Sprintf("q%06d.smt2", id))
	if err := os.WriteFile(file, []byte(text), 0o644); err != nil {
		return SolverResult{Verdict: "error", Output: err.Error()}
	}
	if !keepQueries {
		defer os.Remove(file)
	}
	// stage 1: a single fast solver with a short budget; stage 2: the race
	all := map[string]string{}
	quick := 2
	if timeoutS < quick {
		quick = timeoutS
	}
	v, o, el := runOne(context.Background(), solvers[0], file, quick, q.SeedOff)
	all[solvers[0].name] = v
	if v == "unsat" || v == "sat" {
		record(solvers[0].name, el)
		return SolverResult{Verdict: v, Solver: solvers[0].name, TimeS: el, Output: o, All: all}
	}
	if v == "error" {
		// a malformed query is an engine bug: surface it
		all[solvers[0].name] = "error: " + firstLines(o, 3)
	}
	ctx, cancel := context.WithCancel(context.Background())
	defer cancel()
	type res struct {
		name, v, o string
		el         float64
	}
	ch := make(chan res, len(solvers))
	for _, sp := range solvers {
		sp := sp
		go func() {
			v, o, el := runOne(ctx, sp, file, timeoutS, q.SeedOff)
			ch <- res{sp.name, v, o, el}
		}()
	}
	var best *res
	for range solvers {
		r := <-ch
		if r.v == "error" {
			all[r.name] = "error: " + firstLines(r.o, 3)
		} else {
			all[r.name] = r.v
		}
		if r.v == "unsat" || r.v == "sat" {
			rr := r
			best = &rr
			cancel()
			break
		}
	}
	if best != nil {
		record(best.name, best.el)
		return SolverResult{Verdict: best.v, Solver: best.name, TimeS: best.el, Output: best.o, All: all}
	}
	verdict := "unknown"
	allTimeout := true
	for _, v := range all {
		if v != "timeout" {
			allTimeout = false
		}
	}
	if allTimeout {
		verdict = "timeout"
	}
	for _, v := range all {
		if strings.HasPrefix(v, "error") {
			verdict = "error"
		}
	}
	return SolverResult{Verdict: verdict, All: all, Output: fmt.Sprint(all)}
}

func record(name string, el float64) {
	queryMu.Lock()
	solverWins[name]++
	solverTime[name] += el
	queryMu.Unlock()
}

func firstLines(s string, n int) string {
	lines := strings.Split(strings.TrimSpace(s), "\n")
	if len(lines) > n {
		lines = lines[:n]
	}
	return strings.Join(lines, " / ")
}
