package main

// Value layout: every Go value is a flat list of scalar SMT terms ("leaves").

import (
	"fmt"
	"go/types"
	"strings"
)

type Leaf struct {
	Path string
	Sort Sort
	T    types.Type
}

type AddrKind int

const (
	ALocal AddrKind = iota
	AField
	AElem
	ABox
	AGlobal
	AArr // pointer to a whole backing array (*[N]T): Ref = array reference
)

// Addr is a syntactic address.
type Addr struct {
	Kind AddrKind
	Cell int    // ALocal
	Ref  *Term  // AField / ABox: object reference; AElem: array reference
	Idx  *Term  // AElem: absolute index into the backing array
	Base string // heap component prefix
	Path string // leaf path prefix below Base ("" or "a.b.")
	T    types.Type
}

// Val is a symbolic Go value.
type Val struct {
	T types.Type
	L []*Term
	A *Addr // set for pointer values whose target is known syntactically
}

func (v *Val) String() string {
	var s []string
	for _, l := range v.L {
		s = append(s, l.String())
	}
	return "<" + strings.Join(s, ",") + ">"
}

func typeName(t types.Type) string {
	switch tt := t.(type) {
	case *types.Named:
		o := tt.Obj()
		if o.Pkg() != nil {
			p := o.Pkg().Path()
			return p[strings.LastIndex(p, "/")+1:] + "." + o.Name()
		}
		return o.Name()
	case *types.Alias:
		return typeName(types.Unalias(tt))
	case *types.Pointer:
		return "*" + typeName(tt.Elem())
	case *types.Slice:
		return "[]" + typeName(tt.Elem())
	case *types.Array:
		return fmt.Sprintf("[%d]%s", tt.Len(), typeName(tt.Elem()))
	case *types.Basic:
		return tt.Name()
	case *types.TypeParam:
		return tt.Obj().Name()
	case *types.Map:
		return "map[" + typeName(tt.Key()) + "]" + typeName(tt.Elem())
	case *types.Interface:
		if tt.Empty() {
			return "any"
		}
		return "iface"
	case *types.Signature:
		return "func"
	case *types.Struct:
		if tt.NumFields() == 0 {
			return "struct{}"
		}
		return "struct"
	case *types.Tuple:
		return "tuple"
	case *types.Chan:
		return "chan"
	}
	return fmt.Sprintf("%T", t)
}

// typeEnv substitutes type parameters (by name) when a generic callee's contract is evaluated
// at an instantiated call site.
type TypeEnv map[string]types.Type

func (te TypeEnv) apply(t types.Type) types.Type {
	if te == nil {
		return t
	}
	if tp, ok := t.(*types.TypeParam); ok {
		if r, ok := te[tp.Obj().Name()]; ok {
			return r
		}
	}
	return t
}

func sortOfBasic(b *types.Basic) Sort {
	info := b.Info()
	switch {
	case info&types.IsBoolean != 0:
		return SBool
	case info&types.IsInteger != 0:
		return SInt
	case info&types.IsString != 0:
		return SStr
	case info&types.IsFloat != 0:
		return SReal
	case b.Kind() == types.UnsafePointer:
		return SInt
	case b.Kind() == types.UntypedNil:
		return SInt
	}
	return SInt
}

var layoutCache = map[types.Type][]Leaf{}

func layout(t types.Type) []Leaf {
	return layoutTE(t, nil)
}

func layoutTE(t types.Type, te TypeEnv) []Leaf {
	if te == nil {
		if l, ok := layoutCache[t]; ok {
			return l
		}
	}
	l := layout0(t, te, 0)
	if te == nil {
		layoutCache[t] = l
	}
	return l
}

// pseudo types of the specification language (bit-vectors)
var pseudoTypes = map[string]*types.Named{}

func pseudoType(name string) types.Type {
	if t, ok := pseudoTypes[name]; ok {
		return t
	}
	t := types.NewNamed(types.NewTypeName(0, nil, name, nil), types.Typ[types.Int], nil)
	pseudoTypes[name] = t
	return t
}

func pseudoSort(t types.Type) (Sort, bool) {
	n, ok := t.(*types.Named)
	if !ok || n.Obj().Pkg() != nil {
		return "", false
	}
	switch n.Obj().Name() {
	case "bv64":
		return SBV64, true
	case "bv8":
		return SBV8, true
	case "bv32":
		return SBV32, true
	case "bv1":
		return SBV1, true
	case "intarray": // contents of a backing array of integers (bytes, runes)
		return ArrSort(SInt, SInt), true
	case "ref": // any reference-like value (pointer, function value, map)
		return SInt, true
	}
	return "", false
}

func layout0(t types.Type, te TypeEnv, depth int) []Leaf {
	if depth > 12 {
		panic("layout: type too deep: " + t.String())
	}
	t = te.apply(t)
	if s, ok := pseudoSort(t); ok {
		return []Leaf{{Path: "", Sort: s, T: t}}
	}
	switch tt := t.(type) {
	case *types.Alias:
		return layout0(types.Unalias(tt), te, depth+1)
	case *types.Named:
		u := tt.Underlying()
		if _, ok := u.(*types.Struct); ok {
			return layout0(u, te, depth+1)
		}
		ls := layout0(u, te, depth+1)
		if len(ls) == 1 && ls[0].Path == "" {
			return []Leaf{{Path: "", Sort: ls[0].Sort, T: t}}
		}
		return ls
	case *types.Basic:
		if tt.Kind() == types.Invalid {
			return nil
		}
		return []Leaf{{Path: "", Sort: sortOfBasic(tt), T: t}}
	case *types.Pointer, *types.Map, *types.Chan, *types.Signature:
		return []Leaf{{Path: "", Sort: SInt, T: t}}
	case *types.Interface:
		return []Leaf{{Path: "", Sort: SAny, T: t}}
	case *types.TypeParam:
		return []Leaf{{Path: "", Sort: Sort("TP_" + tt.Obj().Name()), T: t}}
	case *types.Slice:
		return []Leaf{
			{Path: "#arr", Sort: SInt, T: t}, {Path: "#off", Sort: SInt, T: t},
			{Path: "#len", Sort: SInt, T: t}, {Path: "#cap", Sort: SInt, T: t},
		}
	case *types.Struct:
		var out []Leaf
		for i := 0; i < tt.NumFields(); i++ {
			f := tt.Field(i)
			for _, l := range layout0(f.Type(), te, depth+1) {
				p := f.Name()
				if l.Path != "" {
					if l.Path[0] == '#' {
						p += l.Path
					} else {
						p += "." + l.Path
					}
				}
				out = append(out, Leaf{Path: p, Sort: l.Sort, T: l.T})
			}
		}
		return out
	case *types.Tuple:
		var out []Leaf
		for i := 0; i < tt.Len(); i++ {
			for _, l := range layout0(tt.At(i).Type(), te, depth+1) {
				p := fmt.Sprintf("%d", i)
				if l.Path != "" {
					p += "." + l.Path
				}
				out = append(out, Leaf{Path: p, Sort: l.Sort, T: l.T})
			}
		}
		return out
	case *types.Array:
		el := layout0(tt.Elem(), te, depth+1)
		if len(el) == 1 {
			return []Leaf{{Path: "", Sort: ArrSort(SInt, el[0].Sort), T: t}}
		}
		if tt.Len() <= 8 {
			var out []Leaf
			for i := int64(0); i < tt.Len(); i++ {
				for _, l := range el {
					out = append(out, Leaf{Path: fmt.Sprintf("%d.%s", i, l.Path), Sort: l.Sort, T: l.T})
				}
			}
			return out
		}
		panic("layout: unsupported array type " + t.String())
	}
	panic(fmt.Sprintf("layout: unsupported type %s (%T)", t, t))
}

// fieldRange returns the leaf index range [lo,hi) of field i inside struct type st.
func fieldRange(st *types.Struct, i int, te TypeEnv) (int, int) {
	lo := 0
	for j := 0; j < i; j++ {
		lo += len(layoutTE(st.Field(j).Type(), te))
	}
	return lo, lo + len(layoutTE(st.Field(i).Type(), te))
}

func tupleRange(tt *types.Tuple, i int, te TypeEnv) (int, int) {
	lo := 0
	for j := 0; j < i; j++ {
		lo += len(layoutTE(tt.At(j).Type(), te))
	}
	return lo, lo + len(layoutTE(tt.At(i).Type(), te))
}

func structOf(t types.Type) *types.Struct {
	t = types.Unalias(t)
	if p, ok := t.Underlying().(*types.Pointer); ok {
		t = p.Elem()
	}
	s, _ := t.Underlying().(*types.Struct)
	return s
}

func derefType(t types.Type) types.Type {
	if p, ok := types.Unalias(t).Underlying().(*types.Pointer); ok {
		return p.Elem()
	}
	return nil
}

var freshCounter int

func freshName(prefix string) string {
	freshCounter++
	return fmt.Sprintf("%s!%d", prefix, freshCounter)
}

// freshVal makes a fully symbolic value of type t.
func freshVal(t types.Type, prefix string, te TypeEnv) *Val {
	ls := layoutTE(t, te)
	v := &Val{T: t}
	base := freshName(prefix)
	for _, l := range ls {
		n := base
		if l.Path != "" {
			n += "." + l.Path
		}
		v.L = append(v.L, Var(n, l.Sort))
	}
	return v
}

func zeroTerm(s Sort) *Term {
	switch s {
	case SInt:
		return IntLit(0)
	case SBool:
		return False
	case SStr:
		return strLit("")
	case SAny:
		return App("anynil", SAny)
	case SReal:
		return &Term{Kind: KLit, Op: "0.0", Sort: SReal}
	}
	if s.IsArray() {
		return App("(as const "+string(s)+")", s, zeroTerm(s.ElemSort()))
	}
	return UF("zero!"+string(s), s)
}

func zeroVal(t types.Type, te TypeEnv) *Val {
	v := &Val{T: t}
	for _, l := range layoutTE(t, te) {
		v.L = append(v.L, zeroTerm(l.Sort))
	}
	return v
}

// ---------- strings ----------

var strLits = map[string]string{} // literal -> symbol
var strLitRev = map[string]string{}

func strLit(s string) *Term {
	n, ok := strLits[s]
	if !ok {
		n = fmt.Sprintf("strlit!%d", len(strLits))
		strLits[s] = n
		strLitRev[n] = s
		DeclareUF(n, SStr)
	}
	return App(n, SStr)
}

func StrLen(s *Term) *Term {
	if s.Kind == KApp && strings.HasPrefix(s.Op, "strlit!") {
		return IntLit(int64(len(strLitRev[s.Op])))
	}
	return UF("strlen", SInt, s)
}

func StrLt(a, b *Term) *Term {
	if a.Kind == KApp && b.Kind == KApp && strings.HasPrefix(a.Op, "strlit!") && strings.HasPrefix(b.Op, "strlit!") {
		return BoolLit(strLitRev[a.Op] < strLitRev[b.Op])
	}
	if sameTerm(a, b) {
		return False
	}
	return UF("strlt", SBool, a, b)
}

// sliceWF gives the well-formedness facts of a slice value.
func sliceWF(v *Val) *Term {
	return And(Ge(v.L[1], IntLit(0)), Ge(v.L[2], IntLit(0)), Le(v.L[2], v.L[3]))
}

// boxAny injects a concrete-typed value into the Any datatype.
func boxAny(v *Val, te TypeEnv) *Term {
	t := te.apply(v.T)
	if isIface := isIfaceType(t); isIface {
		return v.L[0]
	}
	if b, ok := t.(*types.Basic); ok && b.Kind() == types.UntypedNil {
		return App("anynil", SAny)
	}
	var sorts []Sort
	for _, l := range layoutTE(t, te) {
		sorts = append(sorts, l.Sort)
	}
	c := getAnyCtor(typeKey(t), sorts)
	return App(c.Name, SAny, v.L...)
}

func typeKey(t types.Type) string {
	return types.TypeString(t, func(p *types.Package) string { return p.Path() })
}

// unboxAny projects an Any value to concrete type t (no check).
func unboxAny(a *Term, t types.Type, te TypeEnv) *Val {
	t = te.apply(t)
	if isIface := isIfaceType(t); isIface {
		return &Val{T: t, L: []*Term{a}}
	}
	ls := layoutTE(t, te)
	var sorts []Sort
	for _, l := range ls {
		sorts = append(sorts, l.Sort)
	}
	c := getAnyCtor(typeKey(t), sorts)
	v := &Val{T: t}
	for i := range ls {
		if a.Kind == KApp && a.Op == c.Name {
			v.L = append(v.L, a.Args[i])
		} else {
			v.L = append(v.L, App(c.Fields[i].Name, c.Fields[i].Sort, a))
		}
	}
	return v
}

// isAny tests the dynamic type of an Any value.
func isAny(a *Term, t types.Type, te TypeEnv) *Term {
	t = te.apply(t)
	if isIface := isIfaceType(t); isIface {
		panic("isAny on interface type")
	}
	var sorts []Sort
	for _, l := range layoutTE(t, te) {
		sorts = append(sorts, l.Sort)
	}
	c := getAnyCtor(typeKey(t), sorts)
	if a.Kind == KApp && strings.HasPrefix(a.Op, "box!") {
		return BoolLit(a.Op == c.Name)
	}
	if a.Kind == KApp && a.Op == "anynil" {
		return False
	}
	return App("(_ is "+smtName(c.Name)+")", SBool, a)
}
