package main

// Contract files: parsing of items, clauses and the specification expression language.

import (
	"fmt"
	"os"
	"regexp"
	"strconv"
	"strings"
	"unicode"
)

// ---------- specification expressions ----------

type SType struct {
	Kind string // name | ptr | slice | map
	Pkg  string
	Name string
	Elem *SType
	Key  *SType
}

func (t *SType) String() string {
	switch t.Kind {
	case "ptr":
		return "*" + t.Elem.String()
	case "slice":
		return "[]" + t.Elem.String()
	case "map":
		return "map[" + t.Key.String() + "]" + t.Elem.String()
	}
	if t.Pkg != "" {
		return t.Pkg + "." + t.Name
	}
	return t.Name
}

type Binder struct {
	Name string
	Type *SType
}

type SExpr struct {
	Kind    string // ident int str unary binary call sel index slice assert quant old cond is
	Op      string
	Name    string
	Args    []*SExpr
	Binders []Binder
	Type    *SType
	Pos     int
}

func (e *SExpr) String() string {
	switch e.Kind {
	case "ident", "int":
		return e.Name
	case "str":
		return strconv.Quote(e.Name)
	case "unary":
		return e.Op + e.Args[0].String()
	case "binary":
		return "(" + e.Args[0].String() + " " + e.Op + " " + e.Args[1].String() + ")"
	case "call":
		var as []string
		for _, a := range e.Args[1:] {
			as = append(as, a.String())
		}
		return e.Args[0].String() + "(" + strings.Join(as, ", ") + ")"
	case "sel":
		return e.Args[0].String() + "." + e.Name
	case "index":
		return e.Args[0].String() + "[" + e.Args[1].String() + "]"
	case "assert":
		return e.Args[0].String() + ".(" + e.Type.String() + ")"
	case "is":
		return "is[" + e.Type.String() + "](" + e.Args[0].String() + ")"
	case "mk":
		var as []string
		for _, a := range e.Args {
			as = append(as, a.String())
		}
		return "mk[" + e.Type.String() + "](" + strings.Join(as, ", ") + ")"
	case "old":
		return "old(" + e.Args[0].String() + ")"
	case "quant":
		var bs []string
		for _, b := range e.Binders {
			bs = append(bs, b.Name+" "+b.Type.String())
		}
		return "(" + e.Op + " " + strings.Join(bs, ", ") + " :: " + e.Args[0].String() + ")"
	case "cond":
		return "(" + e.Args[0].String() + " ? " + e.Args[1].String() + " : " + e.Args[2].String() + ")"
	}
	return "<" + e.Kind + ">"
}

type stok struct {
	kind string // id int str op eof
	text string
	pos  int
}

func slex(src string) ([]stok, error) {
	var toks []stok
	i := 0
	for i < len(src) {
		c := src[i]
		switch {
		case c == ' ' || c == '\t' || c == '\n' || c == '\r':
			i++
		case c == '/' && i+1 < len(src) && src[i+1] == '/':
			for i < len(src) && src[i] != '\n' {
				i++
			}
		case unicode.IsLetter(rune(c)) || c == '_' || c == '$':
			j := i
			for j < len(src) && (unicode.IsLetter(rune(src[j])) || unicode.IsDigit(rune(src[j])) || src[j] == '_' || src[j] == '$') {
				j++
			}
			toks = append(toks, stok{"id", src[i:j], i})
			i = j
		case c >= '0' && c <= '9':
			j := i
			for j < len(src) && (src[j] >= '0' && src[j] <= '9' || src[j] == 'x' || (src[j] >= 'a' && src[j] <= 'f') || (src[j] >= 'A' && src[j] <= 'F')) {
				j++
			}
			toks = append(toks, stok{"int", src[i:j], i})
			i = j
		case c == '"':
			j := i + 1
			for j < len(src) && src[j] != '"' {
				if src[j] == '\\' {
					j++
				}
				j++
			}
			if j >= len(src) {
				return nil, fmt.Errorf("unterminated string at %d", i)
			}
			s, err := strconv.Unquote(src[i : j+1])
			if err != nil {
				return nil, err
			}
			toks = append(toks, stok{"str", s, i})
			i = j + 1
		case c == '\'':
			j := i + 1
			for j < len(src) && src[j] != '\'' {
				if src[j] == '\\' {
					j++
				}
				j++
			}
			r, _, _, err := strconv.UnquoteChar(src[i+1:j], '\'')
			if err != nil {
				return nil, err
			}
			toks = append(toks, stok{"int", strconv.Itoa(int(r)), i})
			i = j + 1
		default:
			ops := []string{"<==>", "==>", "::", "&&", "||", "==", "!=", "<=", ">=", "<<", ">>", "[]"}
			matched := false
			for _, op := range ops {
				if strings.HasPrefix(src[i:], op) {
					toks = append(toks, stok{"op", op, i})
					i += len(op)
					matched = true
					break
				}
			}
			if !matched {
				toks = append(toks, stok{"op", string(c), i})
				i++
			}
		}
	}
	toks = append(toks, stok{"eof", "", len(src)})
	return toks, nil
}

type sparser struct {
	toks []stok
	p    int
	src  string
}

func (p *sparser) peek() stok { return p.toks[p.p] }
func (p *sparser) next() stok  { t := p.toks[p.p]; p.p++; return t }
func (p *sparser) isOp(s string) bool {
	t := p.peek()
	return t.kind == "op" && t.text == s
}
func (p *sparser) isID(s string) bool {
	t := p.peek()
	return t.kind == "id" && t.text == s
}

// isQuant: "forall"/"exists" starts a quantifier only when a binder name follows; otherwise it is an ordinary
// identifier (Go code has local variables called exists)
func (p *sparser) isQuant() bool {
	if !(p.isID("forall") || p.isID("exists")) {
		return false
	}
	return p.p+1 < len(p.toks) && p.toks[p.p+1].kind == "id"
}
func (p *sparser) expectOp(s string) {
	if !p.isOp(s) {
		panic(fmt.Sprintf("spec syntax: expected %q at %d near %q in %q", s, p.peek().pos, p.peek().text, p.src))
	}
	p.next()
}

func ParseSExpr(src string) (e *SExpr, err error) {
	toks, err := slex(src)
	if err != nil {
		return nil, err
	}
	p := &sparser{toks: toks, src: src}
	defer func() {
		if r := recover(); r != nil {
			err = fmt.Errorf("%v", r)
		}
	}()
	e = p.expr()
	if p.peek().kind != "eof" {
		return nil, fmt.Errorf("spec syntax: trailing input at %d near %q in %q", p.peek().pos, p.peek().text, src)
	}
	return e, nil
}

func (p *sparser) parseType() *SType {
	if p.isOp("*") {
		p.next()
		return &SType{Kind: "ptr", Elem: p.parseType()}
	}
	if p.isOp("[]") {
		p.next()
		return &SType{Kind: "slice", Elem: p.parseType()}
	}
	if p.isOp("[") {
		p.next()
		p.expectOp("]")
		return &SType{Kind: "slice", Elem: p.parseType()}
	}
	t := p.next()
	if t.kind != "id" {
		panic(fmt.Sprintf("spec syntax: expected type at %d in %q", t.pos, p.src))
	}
	if t.text == "struct" && p.isOp("{") {
		p.next()
		p.expectOp("}")
		return &SType{Kind: "name", Name: "struct{}"}
	}
	if t.text == "map" {
		p.expectOp("[")
		k := p.parseType()
		p.expectOp("]")
		v := p.parseType()
		return &SType{Kind: "map", Key: k, Elem: v}
	}
	st := &SType{Kind: "name", Name: t.text}
	if p.isOp(".") {
		p.next()
		n := p.next()
		st.Pkg = st.Name
		st.Name = n.text
	}
	// optional type arguments are ignored
	if p.isOp("[") && p.toks[p.p+1].kind == "id" {
		depth := 0
		for {
			t := p.next()
			if t.kind == "op" && t.text == "[" {
				depth++
			} else if t.kind == "op" && t.text == "]" {
				depth--
				if depth == 0 {
					break
				}
			} else if t.kind == "eof" {
				panic("unterminated type args")
			}
		}
	}
	return st
}

func (p *sparser) expr() *SExpr {
	if p.isQuant() {
		q := p.next()
		var bs []Binder
		for {
			var names []string
			for {
				n := p.next()
				if n.kind != "id" {
					panic(fmt.Sprintf("spec syntax: binder name expected at %d in %q", n.pos, p.src))
				}
				names = append(names, n.text)
				if p.isOp(",") {
					// lookahead: "a, b T" vs "a T, b T"
					p.next()
					continue
				}
				break
			}
			ty := p.parseType()
			for _, n := range names {
				bs = append(bs, Binder{n, ty})
			}
			if p.isOp(",") {
				p.next()
				continue
			}
			break
		}
		p.expectOp("::")
		body := p.expr()
		return &SExpr{Kind: "quant", Op: q.text, Binders: bs, Args: []*SExpr{body}, Pos: q.pos}
	}
	return p.iff()
}

func (p *sparser) iff() *SExpr {
	l := p.implies()
	for p.isOp("<==>") {
		t := p.next()
		r := p.implies()
		l = &SExpr{Kind: "binary", Op: "<==>", Args: []*SExpr{l, r}, Pos: t.pos}
	}
	return l
}

func (p *sparser) implies() *SExpr {
	l := p.cond()
	if p.isOp("==>") {
		t := p.next()
		var r *SExpr
		if p.isQuant() {
			r = p.expr()
		} else {
			r = p.implies()
		}
		return &SExpr{Kind: "binary", Op: "==>", Args: []*SExpr{l, r}, Pos: t.pos}
	}
	return l
}

func (p *sparser) cond() *SExpr {
	c := p.or()
	if p.isOp("?") {
		t := p.next()
		a := p.cond()
		p.expectOp(":")
		b := p.cond()
		return &SExpr{Kind: "cond", Args: []*SExpr{c, a, b}, Pos: t.pos}
	}
	return c
}

func (p *sparser) or() *SExpr {
	l := p.and()
	for p.isOp("||") {
		t := p.next()
		var r *SExpr
		if p.isQuant() {
			r = p.expr()
		} else {
			r = p.and()
		}
		l = &SExpr{Kind: "binary", Op: "||", Args: []*SExpr{l, r}, Pos: t.pos}
	}
	return l
}

func (p *sparser) and() *SExpr {
	l := p.cmp()
	for p.isOp("&&") {
		t := p.next()
		var r *SExpr
		if p.isQuant() {
			r = p.expr()
		} else {
			r = p.cmp()
		}
		l = &SExpr{Kind: "binary", Op: "&&", Args: []*SExpr{l, r}, Pos: t.pos}
	}
	return l
}

func (p *sparser) cmp() *SExpr {
	l := p.add()
	for {
		t := p.peek()
		if t.kind == "op" && (t.text == "==" || t.text == "!=" || t.text == "<" || t.text == "<=" || t.text == ">" || t.text == ">=") {
			p.next()
			r := p.add()
			l = &SExpr{Kind: "binary", Op: t.text, Args: []*SExpr{l, r}, Pos: t.pos}
			continue
		}
		return l
	}
}

func (p *sparser) add() *SExpr {
	l := p.mul()
	for {
		t := p.peek()
		if t.kind == "op" && (t.text == "+" || t.text == "-") {
			p.next()
			r := p.mul()
			l = &SExpr{Kind: "binary", Op: t.text, Args: []*SExpr{l, r}, Pos: t.pos}
			continue
		}
		return l
	}
}

func (p *sparser) mul() *SExpr {
	l := p.unary()
	for {
		t := p.peek()
		if t.kind == "op" && (t.text == "*" || t.text == "/" || t.text == "%") {
			p.next()
			r := p.unary()
			l = &SExpr{Kind: "binary", Op: t.text, Args: []*SExpr{l, r}, Pos: t.pos}
			continue
		}
		return l
	}
}

func (p *sparser) unary() *SExpr {
	t := p.peek()
	if t.kind == "op" && (t.text == "!" || t.text == "-" || t.text == "*" || t.text == "&") {
		p.next()
		x := p.unary()
		return &SExpr{Kind: "unary", Op: t.text, Args: []*SExpr{x}, Pos: t.pos}
	}
	return p.postfix()
}

func (p *sparser) postfix() *SExpr {
	x := p.primary()
	for {
		t := p.peek()
		if t.kind != "op" {
			return x
		}
		switch t.text {
		case ".":
			p.next()
			if p.isOp("(") {
				p.next()
				ty := p.parseType()
				p.expectOp(")")
				x = &SExpr{Kind: "assert", Args: []*SExpr{x}, Type: ty, Pos: t.pos}
			} else {
				n := p.next()
				x = &SExpr{Kind: "sel", Name: n.text, Args: []*SExpr{x}, Pos: t.pos}
			}
		case "[":
			p.next()
			var lo, hi *SExpr
			if !p.isOp(":") {
				lo = p.expr()
			}
			if p.isOp(":") {
				p.next()
				if !p.isOp("]") {
					hi = p.expr()
				}
				p.expectOp("]")
				x = &SExpr{Kind: "slice", Args: []*SExpr{x, lo, hi}, Pos: t.pos}
			} else {
				p.expectOp("]")
				x = &SExpr{Kind: "index", Args: []*SExpr{x, lo}, Pos: t.pos}
			}
		case "(":
			p.next()
			args := []*SExpr{x}
			for !p.isOp(")") {
				args = append(args, p.expr())
				if p.isOp(",") {
					p.next()
				}
			}
			p.expectOp(")")
			x = &SExpr{Kind: "call", Args: args, Pos: t.pos}
		default:
			return x
		}
	}
}

func (p *sparser) primary() *SExpr {
	t := p.next()
	switch t.kind {
	case "int":
		return &SExpr{Kind: "int", Name: t.text, Pos: t.pos}
	case "str":
		return &SExpr{Kind: "str", Name: t.text, Pos: t.pos}
	case "id":
		if t.text == "old" && p.isOp("(") {
			p.next()
			x := p.expr()
			p.expectOp(")")
			return &SExpr{Kind: "old", Args: []*SExpr{x}, Pos: t.pos}
		}
		if t.text == "mk" && p.isOp("[") {
			p.next()
			ty := p.parseType()
			p.expectOp("]")
			p.expectOp("(")
			var args []*SExpr
			for !p.isOp(")") {
				args = append(args, p.expr())
				if p.isOp(",") {
					p.next()
				}
			}
			p.expectOp(")")
			return &SExpr{Kind: "mk", Type: ty, Args: args, Pos: t.pos}
		}
		if t.text == "is" && p.isOp("[") {
			p.next()
			ty := p.parseType()
			p.expectOp("]")
			p.expectOp("(")
			x := p.expr()
			p.expectOp(")")
			return &SExpr{Kind: "is", Type: ty, Args: []*SExpr{x}, Pos: t.pos}
		}
		return &SExpr{Kind: "ident", Name: t.text, Pos: t.pos}
	case "op":
		if t.text == "(" {
			x := p.expr()
			p.expectOp(")")
			return x
		}
	}
	panic(fmt.Sprintf("spec syntax: unexpected %q at %d in %q", t.text, t.pos, p.src))
}

// ---------- contract items ----------

type Clause struct {
	Kind  string   // requires ensures modifies invariant decreases loopdecreases assume ...
	Loop  int      // for loop clauses
	Props []string // clause-level property tags (default: item's)
	Tagged bool    // the clause carries its own [tags]
	Text  string
	Expr  *SExpr
	Lhs   *SExpr // for set clauses
	Ord   int // ordinal among clauses of the same kind (and loop)
	Line  int
}

type SpecFunc struct {
	Pkg    *ContractSet
	Name   string
	Params []Binder
	Ret    *SType
	Body   *SExpr // nil => uninterpreted
	Text   string
}

type Lemma struct {
	Pkg     *ContractSet
	Name    string
	Props   []string
	Expr    *SExpr
	Text    string
	IsAxiom bool
	Uses    []string
}

type FuncSpec struct {
	Pkg      *ContractSet
	Target   string // as written: "(*OrderedMap).binarySearch", "tokenEqual", "newParser$1"
	Props    []string
	Clauses  []*Clause
	Returns  []string
	Flags    map[string]string // pure, inline, safe, trusted, nopanic, ...
	Trusted  bool
	Line     int
	PureFlds []string
}

func (f *FuncSpec) Has(flag string) bool { _, ok := f.Flags[flag]; return ok }

func (f *FuncSpec) ClausesOf(kind string) []*Clause {
	var out []*Clause
	for _, c := range f.Clauses {
		if c.Kind == kind {
			out = append(out, c)
		}
	}
	return out
}

type ContractSet struct {
	PkgPath   string
	PkgName   string
	Label     string // last element of the package path; used in obligation and symbol names
	File      string
	Specs     map[string]*SpecFunc
	Lemmas    []*Lemma
	Funcs     map[string]*FuncSpec
	FuncOrder []string
	PureTypes map[string]bool
	Ghosts    map[string]*SType
	Trusted   bool
	Sealed    []string
	Immutable []string
	Frames    []*FrameDecl
	Ordered   []*OrderedDecl
	Sweep     map[string]bool // property -> sweep the package's functions without contract for implicit panics
}

// FrameDecl: the only functions of the package allowed to store to a field.
// OrderedDecl: package-level "ordered f1 f2 ... [props]": no call of one of these functions from inside a map-range loop
type OrderedDecl struct {
	Names []string
	Props []string
}

type FrameDecl struct {
	Field   string // Type.field
	Writers []string
	Props   []string
}

// ghost variables ("$name") and ghost fields ("Type.$field") with their type names
var ghostDecls = map[string]string{}

var clauseKeywords = map[string]bool{
	"at": true, "freshresult": true, "set": true, "tag": true, "callsite": true, "preserves": true, "postassume": true,
	"requires": true, "ensures": true, "modifies": true, "loop": true, "decreases": true,
	"pure": true, "inline": true, "safe": true, "assume": true, "returns": true, "nopanic": true,
	"purefield": true, "cases": true, "replay": true, "panics_if": true, "opaque": true, "reads": true,
	"uses": true, "event": true, "mode": true, "assert": true, "noinline": true, "havoc": true, "maxpaths": true,
	"trusted": true, "frame": true, "ghost": true, "calls": true, "ordered": true,
}

var tagRe = regexp.MustCompile(`^\[([A-Z0-9, ]+)\]\s*`)

func parseTags(s string) ([]string, string) {
	m := tagRe.FindStringSubmatch(s)
	if m == nil {
		return nil, s
	}
	var tags []string
	for _, t := range strings.Split(m[1], ",") {
		tags = append(tags, strings.TrimSpace(t))
	}
	return tags, s[len(m[0]):]
}

func stripComment(l string) string {
	// remove // comments outside of string literals
	in := false
	for i := 0; i < len(l)-1; i++ {
		if l[i] == '"' {
			in = !in
		}
		if !in && l[i] == '/' && l[i+1] == '/' {
			return l[:i]
		}
	}
	return l
}

// LoadContractFile parses a contract file. For Go files only the /*@ ... @*/ blocks are read.
func LoadContractFile(path string, trusted bool) (*ContractSet, error) {
	data, err := os.ReadFile(path)
	if err != nil {
		return nil, err
	}
	text := string(data)
	cs := &ContractSet{File: path, Specs: map[string]*SpecFunc{}, Funcs: map[string]*FuncSpec{}, PureTypes: map[string]bool{}, Ghosts: map[string]*SType{}, Trusted: trusted}
	type line struct {
		s string
		n int
	}
	var lines []line
	if strings.HasSuffix(path, ".go") || strings.HasSuffix(path, ".h") {
		all := strings.Split(text, "\n")
		in := false
		for i, l := range all {
			t := strings.TrimSpace(l)
			if !in {
				if strings.HasPrefix(t, "package ") {
					cs.PkgName = strings.TrimSpace(strings.TrimPrefix(t, "package "))
				}
				if strings.HasPrefix(t, "/*@") {
					in = true
				}
				continue
			}
			if strings.HasPrefix(t, "@*/") {
				in = false
				continue
			}
			lines = append(lines, line{l, i + 1})
		}
	} else {
		for i, l := range strings.Split(text, "\n") {
			lines = append(lines, line{l, i + 1})
		}
	}
	// group into items: an item starts at a non-indented, non-empty line
	type item struct {
		head  line
		body  []line
	}
	var items []*item
	for _, l := range lines {
		s := stripComment(l.s)
		if strings.TrimSpace(s) == "" {
			continue
		}
		l.s = s
		if s[0] != ' ' && s[0] != '\t' {
			items = append(items, &item{head: l})
		} else {
			if len(items) == 0 {
				return nil, fmt.Errorf("%s:%d: indented line outside of an item", path, l.n)
			}
			it := items[len(items)-1]
			it.body = append(it.body, l)
		}
	}
	for _, it := range items {
		h := strings.TrimSpace(it.head.s)
		word := h
		rest := ""
		if i := strings.IndexAny(h, " \t"); i >= 0 {
			word, rest = h[:i], strings.TrimSpace(h[i+1:])
		}
		// join body lines for non-func items
		joinBody := func() string {
			var parts []string
			for _, b := range it.body {
				parts = append(parts, strings.TrimSpace(b.s))
			}
			return strings.Join(parts, " ")
		}
		switch word {
		case "package":
			// package <importpath> [name]
			f := strings.Fields(rest)
			cs.PkgPath = f[0]
			if len(f) > 1 {
				cs.PkgName = f[1]
			}
		case "puretype":
			for _, n := range strings.Fields(rest) {
				cs.PureTypes[n] = true
			}
		case "sealed":
			cs.Sealed = append(cs.Sealed, strings.Fields(rest)...)
		case "sweep": // sweep C03: zero-annotation safety sweep of this package under property C03
			if cs.Sweep == nil {
				cs.Sweep = map[string]bool{}
			}
			for _, pr := range strings.Fields(rest) {
				cs.Sweep[pr] = true
			}
		case "immutable":
			for _, n := range strings.Fields(rest + " " + joinBody()) {
				cs.Immutable = append(cs.Immutable, n)
			}
		case "ghost": // ghost $name type   |   ghost Type.$field type
			f := strings.Fields(rest)
			if len(f) != 2 {
				return nil, fmt.Errorf("%s:%d: ghost NAME TYPE", path, it.head.n)
			}
			cs.Ghosts[f[0]] = &SType{Kind: "name", Name: f[1]}
		case "spec":
			full := rest + " " + joinBody()
			sf, err := parseSpecFunc(full)
			if err != nil {
				return nil, fmt.Errorf("%s:%d: %v", path, it.head.n, err)
			}
			sf.Pkg = cs
			cs.Specs[sf.Name] = sf
		case "axiom", "lemma":
			full := rest + " " + joinBody()
			i := strings.Index(full, ":")
			if i < 0 {
				return nil, fmt.Errorf("%s:%d: lemma NAME [props]: expr", path, it.head.n)
			}
			hd := strings.TrimSpace(full[:i])
			body := strings.TrimSpace(full[i+1:])
			name := hd
			var props []string
			if j := strings.Index(hd, "["); j >= 0 {
				name = strings.TrimSpace(hd[:j])
				props, _ = parseTags(strings.TrimSpace(hd[j:]))
			}
			var uses []string
			if k := strings.Index(body, " uses "); k >= 0 && word == "lemma" {
				for _, u := range strings.Split(body[k+6:], ",") {
					uses = append(uses, strings.TrimSpace(u))
				}
				body = body[:k]
			}
			e, err := ParseSExpr(body)
			if err != nil {
				return nil, fmt.Errorf("%s:%d: %v", path, it.head.n, err)
			}
			cs.Lemmas = append(cs.Lemmas, &Lemma{Pkg: cs, Name: name, Props: props, Expr: e, Text: body, IsAxiom: word == "axiom", Uses: uses})
		case "frame":
			// frame <Type.field> writers f1 f2 ...   [props]
			fl := strings.Fields(rest)
			var props []string
			if len(fl) > 0 && strings.HasPrefix(fl[len(fl)-1], "[") {
				props, _ = parseTags(fl[len(fl)-1])
				fl = fl[:len(fl)-1]
			}
			if len(fl) < 3 || fl[1] != "writers" {
				return nil, fmt.Errorf("%s:%d: frame Type.field writers f1 f2 ... [props]", path, it.head.n)
			}
			cs.Frames = append(cs.Frames, &FrameDecl{Field: fl[0], Writers: fl[2:], Props: props})
		case "ordered":
			// ordered f1 f2 ... [props]
			fl := strings.Fields(rest)
			var props []string
			if len(fl) > 0 && strings.HasPrefix(fl[len(fl)-1], "[") {
				props, _ = parseTags(fl[len(fl)-1])
				fl = fl[:len(fl)-1]
			}
			if len(fl) < 1 {
				return nil, fmt.Errorf("%s:%d: ordered f1 f2 ... [props]", path, it.head.n)
			}
			cs.Ordered = append(cs.Ordered, &OrderedDecl{Names: fl, Props: props})
		case "func", "extern", "functype":
			if word == "functype" {
				rest = "functype:" + rest
			}
			fs := &FuncSpec{Pkg: cs, Flags: map[string]string{}, Line: it.head.n, Trusted: trusted || word == "extern"}
			target := rest
			if j := strings.LastIndex(rest, "["); j >= 0 && strings.HasSuffix(strings.TrimSpace(rest), "]") && regexp.MustCompile(`\[[A-Z0-9, ]+\]$`).MatchString(strings.TrimSpace(rest)) {
				target = strings.TrimSpace(rest[:j])
				fs.Props, _ = parseTags(strings.TrimSpace(rest[j:]))
			}
			fs.Target = strings.TrimSpace(target)
			// clauses
			var cur *Clause
			ordCount := map[string]int{}
			flush := func() error {
				if cur == nil {
					return nil
				}
				c := cur
				cur = nil
				c.Text = strings.TrimSpace(c.Text)
				switch c.Kind {
				case "requires", "ensures", "invariant", "decreases", "loopdecreases", "assume", "panics_if", "assert", "postassume":
					e, err := ParseSExpr(c.Text)
					if err != nil {
						return fmt.Errorf("%s:%d: %v", path, c.Line, err)
					}
					c.Expr = e
					key := c.Kind
					if c.Kind == "invariant" || c.Kind == "loopdecreases" {
						key = fmt.Sprintf("%s@%d", c.Kind, c.Loop)
					}
					c.Ord = ordCount[key]
					ordCount[key]++
					if c.Props == nil {
						c.Props = fs.Props
					}
					fs.Clauses = append(fs.Clauses, c)
				case "returns":
					for _, n := range strings.Split(c.Text, ",") {
						fs.Returns = append(fs.Returns, strings.TrimSpace(n))
					}
				case "purefield":
					fs.PureFlds = append(fs.PureFlds, strings.Fields(c.Text)...)
				case "set":
					// set LHS := RHS   (exact ghost/field update performed by a trusted contract)
					parts := strings.SplitN(c.Text, ":=", 2)
					if len(parts) != 2 {
						return fmt.Errorf("%s:%d: set LHS := RHS", path, c.Line)
					}
					l, err := ParseSExpr(strings.TrimSpace(parts[0]))
					if err != nil {
						return fmt.Errorf("%s:%d: %v", path, c.Line, err)
					}
					rr, err := ParseSExpr(strings.TrimSpace(parts[1]))
					if err != nil {
						return fmt.Errorf("%s:%d: %v", path, c.Line, err)
					}
					c.Expr = rr
					c.Lhs = l
					fs.Clauses = append(fs.Clauses, c)
				case "loopend":
					if !strings.HasPrefix(c.Text, "requires ") {
						return fmt.Errorf("%s:%d: loop K end requires EXPR", path, c.Line)
					}
					e, err := ParseSExpr(strings.TrimPrefix(c.Text, "requires "))
					if err != nil {
						return fmt.Errorf("%s:%d: %v", path, c.Line, err)
					}
					c.Expr = e
					c.Ord = ordCount[fmt.Sprintf("loopend@%d", c.Loop)]
					ordCount[fmt.Sprintf("loopend@%d", c.Loop)]++
					if c.Props == nil {
						c.Props = fs.Props
					}
					fs.Clauses = append(fs.Clauses, c)
				case "loopeach":
					// F when EXPR
					f := strings.SplitN(c.Text, " ", 3)
					if len(f) != 3 || f[1] != "when" {
						return fmt.Errorf("%s:%d: loop K each F when EXPR", path, c.Line)
					}
					e, err := ParseSExpr(f[2])
					if err != nil {
						return fmt.Errorf("%s:%d: %v", path, c.Line, err)
					}
					c.Expr = e
					c.Text = f[0]
					c.Ord = ordCount[fmt.Sprintf("loopeach@%d", c.Loop)]
					ordCount[fmt.Sprintf("loopeach@%d", c.Loop)]++
					if c.Props == nil {
						c.Props = fs.Props
					}
					fs.Clauses = append(fs.Clauses, c)
				case "calls":
					// calls F when EXPR: every return at which EXPR holds was preceded by a call of F
					f := strings.SplitN(c.Text, " ", 3)
					if len(f) != 3 || f[1] != "when" {
						return fmt.Errorf("%s:%d: calls F when EXPR", path, c.Line)
					}
					e, err := ParseSExpr(f[2])
					if err != nil {
						return fmt.Errorf("%s:%d: %v", path, c.Line, err)
					}
					c.Expr = e
					c.Text = f[0]
					c.Ord = ordCount["calls"]
					ordCount["calls"]++
					if c.Props == nil {
						c.Props = fs.Props
					}
					fs.Clauses = append(fs.Clauses, c)
				case "callsite":
					// callsite NAME requires EXPR   (arguments are arg0, arg1, ...)
					f := strings.SplitN(c.Text, " ", 3)
					if len(f) != 3 || f[1] != "requires" {
						return fmt.Errorf("%s:%d: callsite NAME requires EXPR", path, c.Line)
					}
					e, err := ParseSExpr(f[2])
					if err != nil {
						return fmt.Errorf("%s:%d: %v", path, c.Line, err)
					}
					c.Expr = e
					c.Text = f[0]
					c.Ord = ordCount["callsite@"+f[0]]
					ordCount["callsite@"+f[0]]++
					if c.Props == nil {
						c.Props = fs.Props
					}
					fs.Clauses = append(fs.Clauses, c)
				case "modifies", "cases", "havoc", "loopmodifies", "frame", "event", "replay", "at", "tag", "preserves", "uses", "ordered":
					if c.Props == nil {
						c.Props = fs.Props
					}
					fs.Clauses = append(fs.Clauses, c)
				default:
					fs.Flags[c.Kind] = c.Text
				}
				return nil
			}
			for _, b := range it.body {
				t := strings.TrimSpace(b.s)
				w := t
				r := ""
				if i := strings.IndexAny(t, " \t"); i >= 0 {
					w, r = t[:i], strings.TrimSpace(t[i+1:])
				}
				if clauseKeywords[w] {
					if err := flush(); err != nil {
						return nil, err
					}
					cur = &Clause{Kind: w, Line: b.n}
					tags, r2 := parseTags(r)
					if tags != nil {
						cur.Props = tags
						cur.Tagged = len(tags) > 0
						r = r2
					}
					if w == "loop" {
						f := strings.SplitN(r, " ", 3)
						if len(f) < 2 {
							return nil, fmt.Errorf("%s:%d: loop K invariant|decreases E", path, b.n)
						}
						k, err := strconv.Atoi(f[0])
						if err != nil {
							return nil, fmt.Errorf("%s:%d: loop ordinal: %v", path, b.n, err)
						}
						cur.Loop = k
						switch f[1] {
						case "invariant":
							cur.Kind = "invariant"
						case "decreases":
							cur.Kind = "loopdecreases"
						case "modifies":
							cur.Kind = "loopmodifies"
						case "each":
							cur.Kind = "loopeach" // loop K each F when E: an iteration in which E holds calls F
						case "end":
							cur.Kind = "loopend" // loop K end requires E: E holds whenever an iteration completes (at the back edge)
						default:
							return nil, fmt.Errorf("%s:%d: loop clause %q", path, b.n, f[1])
						}
						r = ""
						if len(f) == 3 {
							r = f[2]
							tags, r2 := parseTags(r)
							if tags != nil {
								cur.Props = tags
								cur.Tagged = len(tags) > 0
						cur.Tagged = len(tags) > 0
								r = r2
							}
						}
					}
					cur.Text = r
				} else {
					if cur == nil {
						return nil, fmt.Errorf("%s:%d: continuation without clause: %q", path, b.n, t)
					}
					cur.Text += " " + t
				}
			}
			if err := flush(); err != nil {
				return nil, err
			}
			if _, dup := cs.Funcs[fs.Target]; dup {
				return nil, fmt.Errorf("%s:%d: duplicate contract for %s", path, it.head.n, fs.Target)
			}
			cs.Funcs[fs.Target] = fs
			cs.FuncOrder = append(cs.FuncOrder, fs.Target)
		default:
			return nil, fmt.Errorf("%s:%d: unknown item %q", path, it.head.n, word)
		}
	}
	return cs, nil
}

func parseSpecFunc(s string) (*SpecFunc, error) {
	// NAME(params) RET [:= body]
	body := ""
	if i := strings.Index(s, ":="); i >= 0 {
		body = strings.TrimSpace(s[i+2:])
		s = s[:i]
	}
	toks, err := slex(s)
	if err != nil {
		return nil, err
	}
	p := &sparser{toks: toks, src: s}
	var sf *SpecFunc
	func() {
		defer func() {
			if r := recover(); r != nil {
				err = fmt.Errorf("%v", r)
			}
		}()
		name := p.next()
		sf = &SpecFunc{Name: name.text, Text: s}
		p.expectOp("(")
		for !p.isOp(")") {
			var names []string
			for {
				n := p.next()
				names = append(names, n.text)
				if p.isOp(",") {
					p.next()
					continue
				}
				break
			}
			ty := p.parseType()
			for _, n := range names {
				sf.Params = append(sf.Params, Binder{n, ty})
			}
			if p.isOp(",") {
				p.next()
			}
		}
		p.expectOp(")")
		sf.Ret = p.parseType()
	}()
	if err != nil {
		return nil, err
	}
	if body != "" {
		e, err := ParseSExpr(body)
		if err != nil {
			return nil, err
		}
		sf.Body = e
	}
	return sf, nil
}
