package main

// vgo: contract-based deductive verifier for the Go code of /repo.
//
//   vgo check <PROP> [--tier quick|thorough] [--accept] [-v] [--only substr] [--keep]
//   vgo list

import (
	"encoding/json"
	"flag"
	"fmt"
	"os"
	"os/exec"
	"path/filepath"
	"regexp"
	"runtime"
	"sort"
	"strconv"
	"strings"
	"sync"
	"time"
)

var (
	verifDir = "/verif"
	repoDir  = "/repo"
	// property being checked: callee preconditions tagged for other properties are not generated
	currentProp = ""
)

type ClauseResult struct {
	Name     string   `json:"name"`
	Props    []string `json:"props,omitempty"`
	Subs     int      `json:"subqueries"`
	Trivial  int      `json:"trivial"`
	Verdict  string   `json:"verdict"` // discharged | failed | error
	Solver   string   `json:"solver,omitempty"`
	TimeS    float64  `json:"time_s"`
	FailSub  string   `json:"failed_sub,omitempty"`
	FailInfo string   `json:"fail_info,omitempty"`
	failed   *Oblig
}

type Witness struct {
	Kind string `json:"kind"` // go-test: overlay an in-package test that asserts the property; it fails while the defect exists
	Pkg  string `json:"pkg,omitempty"`
	File string `json:"file,omitempty"`
	Run  string `json:"run,omitempty"`
	Cmd  string `json:"cmd,omitempty"` // kind "cmd": shell command, exit status != 0 while the defect exists
}

type KnownFinding struct {
	Property    string   `json:"property"`
	Obligation  string   `json:"obligation"`
	Relativized string   `json:"relativized,omitempty"`
	What        string   `json:"what"`
	Witness     *Witness `json:"witness,omitempty"`
	Status      string   `json:"status"`
	Commit      string   `json:"commit,omitempty"`
	Tag         string   `json:"tag,omitempty"`
}

// runWitness replays a recorded witness against the real code. Returns (reproduced, output).
func runWitness(w *Witness) (bool, string) {
	if w == nil {
		return false, "no witness recorded"
	}
	switch w.Kind {
	case "go-test":
		src := w.File
		if !filepath.IsAbs(src) {
			src = filepath.Join(verifDir, src)
		}
		pkgDir := filepath.Join(repoDir, strings.TrimPrefix(w.Pkg, "./"))
		ov := map[string]any{"Replace": map[string]string{filepath.Join(pkgDir, "zz_verif_witness_test.go"): src}}
		data, _ := json.Marshal(ov)
		ovFile := filepath.Join(scratchDir, "overlay-"+unsafeName.ReplaceAllString(w.Run, "_")+".json")
		os.WriteFile(ovFile, data, 0o644)
		cmd := exec.Command("go", "test", "-overlay", ovFile, "-vet=off", "-timeout", "120s", "-count=1", "-run", "^"+w.Run+"$", w.Pkg)
		cmd.Dir = repoDir
		cmd.Env = append(os.Environ(), "GOFLAGS=-mod=mod", "GOPROXY=off")
		out, err := cmd.CombinedOutput()
		o := string(out)
		if err == nil {
			return false, truncate(o, 4000)
		}
		if strings.Contains(o, "--- FAIL") {
			return true, truncate(o, 4000)
		}
		return false, "witness could not be run: " + truncate(o, 4000)
	case "cmd":
		cmd := exec.Command("sh", "-c", w.Cmd)
		cmd.Dir = verifDir
		cmd.Env = append(os.Environ(), "GOFLAGS=-mod=mod", "GOPROXY=off", "VERIF_SCRATCH="+scratchDir)
		out, err := cmd.CombinedOutput()
		return err != nil, truncate(string(out), 4000)
	}
	return false, "unknown witness kind"
}

func main() {
	if len(os.Args) < 2 {
		fmt.Fprintln(os.Stderr, "usage: vgo check <PROP> [flags]")
		os.Exit(2)
	}
	if d := os.Getenv("VERIF_DIR"); d != "" {
		verifDir = d
	}
	if d := os.Getenv("VERIF_REPO"); d != "" {
		repoDir = d
	}
	switch os.Args[1] {
	case "check":
		os.Exit(cmdCheck(os.Args[2:]))
	case "ssa": // vgo ssa <pkg path suffix> <target>: dump the SSA of one function
		llvmEnv()
		v, err := LoadVerifier(repoDir, []string{"./src/...", "./cmd/kddp/..."}, "")
		if err != nil {
			fmt.Fprintln(os.Stderr, err)
			os.Exit(2)
		}
		for path := range v.pkgByPath {
			if strings.HasSuffix(path, os.Args[2]) {
				if fn := v.lookupFunc(path, os.Args[3]); fn != nil {
					fn.WriteTo(os.Stdout)
				}
			}
		}
	default:
		fmt.Fprintln(os.Stderr, "unknown command", os.Args[1])
		os.Exit(2)
	}
}

func llvmEnv() {
	// src/compiler needs cgo flags for the LLVM bindings
	get := func(args ...string) string {
		out, err := exec.Command("llvm-config-14", args...).Output()
		if err != nil {
			return ""
		}
		return strings.TrimSpace(string(out))
	}
	if os.Getenv("CGO_CPPFLAGS") == "" {
		os.Setenv("CGO_CPPFLAGS", get("--cppflags"))
		os.Setenv("CGO_CXXFLAGS", "-std=c++14")
		os.Setenv("CGO_LDFLAGS", get("--ldflags", "--libs", "--system-libs", "all"))
	}
}

// report of tools/c2go.py for this run (which C functions were translated, which are opaque and why)
var cExtraction map[string]any

func cmdCheck(args []string) int {
	fs := flag.NewFlagSet("check", flag.ExitOnError)
	tier := fs.String("tier", "quick", "quick|thorough")
	accept := fs.Bool("accept", false, "rewrite the ledger from this run (only on a known-good tree)")
	verbose := fs.Bool("v", false, "verbose")
	only := fs.String("only", "", "restrict to functions/lemmas whose name contains this")
	keep := fs.Bool("keep", false, "keep SMT queries")
	noEvidence := fs.Bool("no-evidence", false, "do not write the evidence file")
	stress := fs.Bool("stress", false, "run every SMT query on every solver with several seeds and report fragile ones")
	if len(args) < 1 {
		fmt.Fprintln(os.Stderr, "usage: vgo check <PROP> [flags]")
		return 2
	}
	prop := args[0]
	currentProp = prop
	fs.Parse(args[1:])
	if t := os.Getenv("VERIF_TIER"); t != "" && !flagSet(fs, "tier") {
		*tier = t
	}
	if s := os.Getenv("VERIF_SEED"); s != "" {
		verifSeed, _ = strconv.Atoi(s)
	}
	start := time.Now()
	var err error
	scratchDir, err = os.MkdirTemp("", "vgo-"+prop+"-")
	if err != nil {
		fmt.Fprintln(os.Stderr, err)
		return 2
	}
	keepQueries = *keep
	if !*keep {
		defer os.RemoveAll(scratchDir)
	} else {
		fmt.Fprintln(os.Stderr, "queries kept in", scratchDir)
	}
	timeoutS := 20 // wall-clock per solver; generous so that a loaded machine does not turn a 3 s proof into a timeout
	if *tier == "thorough" {
		timeoutS = 60
	}
	// a machine that is busy with other work (1-minute load above the number of cores) gets proportionally longer
	// wall-clock budgets, at most three times: the limits are meant as CPU time
	if data, err := os.ReadFile("/proc/loadavg"); err == nil {
		var l1 float64
		if _, err := fmt.Sscanf(string(data), "%f", &l1); err == nil {
			if f := l1 / float64(runtime.NumCPU()); f > 1 {
				if f > 3 {
					f = 3
				}
				timeoutS = int(float64(timeoutS) * f)
			}
		}
	}
	llvmEnv()
	patterns := packagesFor(prop)
	var extras []extraPkg
	if cfiles := cFilesFor(prop); len(cfiles) > 0 {
		// the C runtime: extracted mechanically from the tree's C sources on every run
		xdir := filepath.Join(scratchDir, "ddprt")
		cmd := exec.Command("python3", append([]string{filepath.Join(verifDir, "tools", "c2go.py"), "--out", xdir, "--repo", repoDir}, cfiles...)...)
		out, err := cmd.CombinedOutput()
		if err != nil {
			fmt.Fprintln(os.Stderr, "c2go:", string(out))
			return reportLoadFailure(prop, *tier, fmt.Errorf("extraction of the C runtime failed: %s", firstLines(string(out), 5)), start)
		}
		if *verbose {
			fmt.Fprint(os.Stderr, string(out))
		}
		extras = append(extras, extraPkg{Dir: xdir, Contracts: filepath.Join(repoDir, "lib", "runtime", "contracts_verif.h")})
		if data, err := os.ReadFile(filepath.Join(xdir, "extraction.json")); err == nil {
			json.Unmarshal(data, &cExtraction)
		}
	}
	v, err := LoadVerifier(repoDir, patterns, filepath.Join(verifDir, "contracts", "trusted"), extras...)
	if err != nil {
		// a tree that does not load cannot be verified: that is a failure of every ledger clause
		fmt.Fprintln(os.Stderr, "load error:", err)
		return reportLoadFailure(prop, *tier, err, start)
	}
	loadS := time.Since(start).Seconds()

	// ---- generate obligations ----
	var obligs []*Oblig
	var funcs []*FuncResult
	var errors []string
	var csPaths []string
	for p := range v.contracts {
		csPaths = append(csPaths, p)
	}
	sort.Strings(csPaths)
	hasProp := func(ps []string) bool {
		for _, p := range ps {
			if p == prop {
				return true
			}
		}
		return false
	}
	for _, p := range csPaths {
		cs := v.contracts[p]
		if cs.Trusted {
			continue
		}
		for _, target := range cs.FuncOrder {
			spec := cs.Funcs[target]
			if spec.Trusted {
				continue
			}
			rel := hasProp(spec.Props)
			for _, c := range spec.Clauses {
				if hasProp(c.Props) {
					rel = true
				}
			}
			if !rel {
				continue
			}
			if *only != "" && !strings.Contains(cs.Label+"."+target, *only) {
				continue
			}
			fr := v.VerifyFunc(cs, spec)
			funcs = append(funcs, fr)
			if fr.Err != "" {
				errors = append(errors, fr.Name+": "+fr.Err)
			}
			for _, o := range fr.Obligs {
				if len(o.Props) == 0 || hasProp(o.Props) {
					obligs = append(obligs, o)
				}
			}
			// vacuity: the precondition must be satisfiable
			if fr.Err == "" {
				obligs = append(obligs, &Oblig{Func: fr.Name, Clause: "cover.requires", Props: []string{prop}, Hyps: fr.CoverHyps, Cover: true})
			}
		}
		// zero-annotation safety sweep: functions without a contract, every implicit-panic site one obligation
		if sw, ok := cs.Sweep[prop]; ok && sw {
			for _, fn := range v.SweepTargets(cs.PkgPath, prop) {
				tn := targetName(fn)
				if *only != "" && !strings.Contains(cs.Label+"."+tn, *only) {
					continue
				}
				spec := &FuncSpec{Pkg: cs, Target: tn, Props: []string{prop}, Flags: map[string]string{"safe": "", "sweep": "", "maxpaths": "400"}}
				fr := v.VerifyFunc(cs, spec)
				funcs = append(funcs, fr)
				for _, o := range fr.Obligs {
					if strings.HasPrefix(o.Clause, "safe.") {
						obligs = append(obligs, o)
					}
				}
			}
		}
		for _, fd := range cs.Frames {
			if !hasProp(fd.Props) {
				continue
			}
			ok, off := v.CheckFrame(cs, fd)
			o := &Oblig{Func: cs.Label, Clause: "frame." + fd.Field, Props: fd.Props, Goal: BoolLit(ok), Sub: strings.Join(off, ", ")}
			if ok {
				o.Trivial = true
			} else {
				o.Goal = False
			}
			obligs = append(obligs, o)
		}
		for _, od := range cs.Ordered {
			if !hasProp(od.Props) {
				continue
			}
			res := v.CheckOrdered(cs, od)
			keys := make([]string, 0, len(res))
			for k := range res {
				keys = append(keys, k)
			}
			sort.Strings(keys)
			for _, k := range keys {
				j := strings.LastIndex(k, ":")
				fnName, callee := k[:j], k[j+1:]
				if *only != "" && !strings.Contains(cs.Label+"."+fnName, *only) {
					continue
				}
				o := &Oblig{Func: cs.Label + "." + fnName, Clause: "maporder(" + callee + ")", Props: od.Props, Goal: BoolLit(len(res[k]) == 0), Sub: strings.Join(res[k], ", ")}
				if len(res[k]) == 0 {
					o.Trivial = true
				} else {
					o.Goal = False
				}
				obligs = append(obligs, o)
			}
		}
		for _, l := range cs.Lemmas {
			if l.IsAxiom || !hasProp(l.Props) {
				continue
			}
			if *only != "" && !strings.Contains(cs.Label+".lemma."+l.Name, *only) {
				continue
			}
			o, e := v.VerifyLemma(l)
			if e != "" {
				errors = append(errors, cs.Label+".lemma."+l.Name+": "+e)
				obligs = append(obligs, &Oblig{Func: cs.Label, Clause: "lemma." + l.Name, Props: l.Props, Goal: False, Sub: e})
				continue
			}
			obligs = append(obligs, o)
		}
	}
	genS := time.Since(start).Seconds() - loadS

	// ---- discharge ----
	earlyLedger := readLedger(filepath.Join(verifDir, "ledger", prop+".txt"))
	run := &Run{v: v, assumptions: map[string]bool{}, trustedUsed: map[string]bool{}}
	type job struct {
		o *Oblig
		q *Query
	}
	var jobs []job
	for _, o := range obligs {
		if o.Trivial {
			continue
		}
		q := &Query{Name: o.Name() + " " + o.Sub, Hyps: dedupe(o.Hyps), Goal: o.Goal, IsCover: o.Cover}
		if !o.Cover {
			prepareQuery(q)
		}
		terms := append([]*Term(nil), q.Hyps...)
		if o.Goal != nil {
			terms = append(terms, o.Goal)
		}
		q.Axioms = v.axiomsFor(run, terms, nil)
		jobs = append(jobs, job{o, q})
	}
	var wg sync.WaitGroup
	sem := make(chan struct{}, 12)
	// obligations of one return path share their hypotheses: try them as one conjunction first
	groups := map[string][]int{}
	var groupOrder []string
	for i, j := range jobs {
		g := j.o.Group
		if g == "" {
			g = fmt.Sprintf("single#%d", i)
		}
		if _, ok := groups[g]; !ok {
			groupOrder = append(groupOrder, g)
		}
		groups[g] = append(groups[g], i)
	}
	for _, g := range groupOrder {
		idx := groups[g]
		wg.Add(1)
		sem <- struct{}{}
		go func(idx []int) {
			defer wg.Done()
			defer func() { <-sem }()
			if len(idx) > 1 {
				// build the conjunction from the ORIGINAL obligations (their hypotheses are the shared path
				// condition); antecedents of the individual goals must stay local to their conjunct
				var goals []*Term
				for _, i := range idx {
					goals = append(goals, jobs[i].o.Goal)
				}
				q := &Query{Name: jobs[idx[0]].q.Name + " [grouped]", Hyps: dedupe(jobs[idx[0]].o.Hyps), Goal: And(goals...)}
				prepareQuery(q)
				terms := append([]*Term(nil), q.Hyps...)
				terms = append(terms, q.Goal)
				axMu.Lock()
				q.Axioms = v.axiomsFor(run, terms, nil)
				axMu.Unlock()
				res := Solve(q, 3, false)
				if res.Verdict == "unsat" {
					for _, i := range idx {
						r := res
						r.TimeS = res.TimeS / float64(len(idx))
						jobs[i].o.Res = &r
					}
					return
				}
			}
			for _, i := range idx {
				res := solveSplit(jobs[i].q, timeoutS)
				// A clause of the ledger that no solver decides is tried again with the hypotheses in another order and
				// other solver seeds: whether a provable query is proved within the budget depends on incidental naming
				// and ordering (more attempts can only turn "undecided" into "proved", never hide a counterexample).
				for attempt := 1; attempt <= 2 && res.Verdict != "unsat" && res.Verdict != "sat" && res.Verdict != "error" && earlyLedger[jobs[i].o.Name()]; attempt++ {
					q0 := jobs[i].q
					q2 := &Query{Name: q0.Name + fmt.Sprintf(" [retry %d]", attempt), Axioms: q0.Axioms, Goal: q0.Goal, IsCover: q0.IsCover, Values: q0.Values, SeedOff: 11 * attempt}
					n := len(q0.Hyps)
					if n > 0 {
						k := (attempt * n) / 3
						q2.Hyps = append(append([]*Term(nil), q0.Hyps[k:]...), q0.Hyps[:k]...)
					}
					r2 := solveSplit(q2, timeoutS)
					if r2.Verdict == "unsat" || r2.Verdict == "sat" {
						res = r2
					}
				}
				jobs[i].o.Res = &res
			}
		}(idx)
	}
	wg.Wait()
	if *stress {
		stressQueries(jobsQueries(len(jobs), func(i int) (*Oblig, *Query) { return jobs[i].o, jobs[i].q }), timeoutS)
	}
	solveS := time.Since(start).Seconds() - loadS - genS

	// ---- aggregate per clause ----
	byClause := map[string]*ClauseResult{}
	var order []string
	for _, o := range obligs {
		n := o.Name()
		cr := byClause[n]
		if cr == nil {
			cr = &ClauseResult{Name: n, Props: o.Props, Verdict: "discharged"}
			byClause[n] = cr
			order = append(order, n)
		}
		cr.Subs++
		if o.Trivial {
			cr.Trivial++
			continue
		}
		cr.TimeS += o.Res.TimeS
		if o.Res.Solver != "" {
			cr.Solver = o.Res.Solver
		}
		ok := o.Res.Verdict == "unsat"
		if o.Cover {
			// a cover query fails only if the hypotheses are refuted
			ok = o.Res.Verdict != "unsat"
			if o.Res.Verdict == "error" {
				ok = false
			}
		}
		if !ok && *verbose {
			fmt.Fprintf(os.Stderr, "    sub-query failed: %s [%s] %s %v\n", n, o.Sub, o.Res.Verdict, o.Res.All)
		}
		if !ok && cr.Verdict == "discharged" {
			cr.Verdict = "failed"
			cr.FailSub = o.Sub
			cr.FailInfo = fmt.Sprintf("%s %v", o.Res.Verdict, o.Res.All)
			cr.failed = o
		}
	}
	// functions that could not be executed fail all their clauses
	for _, fr := range funcs {
		if fr.Sweep {
			continue // sweep functions that the engine cannot execute are simply not covered
		}
		if fr.Err != "" || len(fr.Unsupported) > 0 {
			n := fr.Name + ":engine"
			msg := fr.Err
			if msg == "" {
				msg = "unsupported: " + strings.Join(fr.Unsupported, "; ")
			}
			byClause[n] = &ClauseResult{Name: n, Verdict: "error", FailInfo: msg, Subs: 1}
			order = append(order, n)
			// an incompletely executed function proves nothing: the clauses generated before the engine gave up
			// cover only the paths explored so far
			for cn, cr := range byClause {
				if strings.HasPrefix(cn, fr.Name+":") && cr.Verdict == "discharged" {
					cr.Verdict = "failed"
					cr.FailInfo = "function not completely executed: " + msg
				}
			}
		}
	}
	sort.Strings(order)

	// ---- ledger ----
	ledgerFile := filepath.Join(verifDir, "ledger", prop+".txt")
	if *accept {
		var lines []string
		for _, n := range order {
			if byClause[n].Verdict == "discharged" {
				lines = append(lines, n)
			}
		}
		os.MkdirAll(filepath.Dir(ledgerFile), 0o755)
		os.WriteFile(ledgerFile, []byte("# clauses discharged on the pinned tree; regenerate only with --accept on a known-good tree\n"+strings.Join(lines, "\n")+"\n"), 0o644)
		fmt.Printf("ledger %s: %d clauses accepted\n", ledgerFile, len(lines))
	}
	ledger := readLedger(ledgerFile)
	known := readKnown(filepath.Join(verifDir, "known_findings.json"), prop)

	violations := 0
	var undecided []string
	discharged := 0
	var samples []map[string]any
	var knownLines []string
	for _, n := range order {
		cr := byClause[n]
		if *verbose || cr.Verdict != "discharged" {
			fmt.Fprintf(os.Stderr, "  %-11s %s (%d subqueries, %d trivial, %.2fs %s) %s %s\n", cr.Verdict, n, cr.Subs, cr.Trivial, cr.TimeS, cr.Solver, cr.FailSub, cr.FailInfo)
		}
	}
	ledgerNames := make([]string, 0, len(ledger))
	for n := range ledger {
		ledgerNames = append(ledgerNames, n)
	}
	sort.Strings(ledgerNames)
	for _, n := range ledgerNames {
		cr := byClause[n]
		if *only != "" && cr == nil {
			continue
		}
		if cr != nil && cr.Verdict == "discharged" {
			discharged++
			if len(samples) < 8 {
				samples = append(samples, map[string]any{"obligation": n, "verdict": "discharged", "subqueries": cr.Subs, "solver": cr.Solver, "time_s": round3(cr.TimeS)})
			}
			continue
		}
		if cr == nil && (strings.Contains(n, ":call(") || strings.Contains(n, ":callsite(") || (strings.Contains(n, ":safe.") && strings.Contains(n, "("))) {
			// obligations attached to call sites / index expressions: if the site no longer exists there is nothing to prove
			discharged++
			continue
		}
		// a ledger clause that is not discharged now is a violation
		violations++
		rp, reproduced := writeReplay(prop, n, cr, v)
		suffix := " no-failing-input-found"
		if reproduced {
			suffix = " counterexample-replayed-on-real-code"
		}
		fmt.Printf("VIOLATION property=%s replay=%s obligation=%s%s\n", prop, rp, n, suffix)
	}
	for _, n := range order {
		if ledger[n] {
			continue
		}
		cr := byClause[n]
		if cr.Verdict == "discharged" {
			undecided = append(undecided, n+" (discharged, not in ledger)")
			continue
		}
		// known finding?
		if kf := known[n]; kf != nil && kf.Status == "open" {
			rep, _ := runWitness(kf.Witness)
			w := "witness replayed on the real code: reproduced"
			if !rep {
				w = "witness not reproduced"
			}
			knownLines = append(knownLines, fmt.Sprintf("KNOWN-FINDING: property=%s %s [%s; %s; %s]", prop, kf.What, kf.Tag, n, w))
			continue
		}
		undecided = append(undecided, n+" ("+cr.Verdict+")")
	}
	// an open known finding whose relativised clause is not in the ledger is a configuration error
	for _, kf := range known {
		if kf.Status == "open" && kf.Relativized != "" && !ledger[kf.Relativized] {
			fmt.Fprintf(os.Stderr, "warning: known finding %s: relativised clause %s not in the ledger\n", kf.Obligation, kf.Relativized)
		}
	}
	for _, l := range knownLines {
		fmt.Println(l)
	}
	if len(errors) > 0 {
		for _, e := range errors {
			fmt.Fprintln(os.Stderr, "  error:", e)
		}
	}
	wall := time.Since(start).Seconds()

	// ---- evidence ----
	if !*noEvidence && *only == "" {
		assum := map[string]bool{}
		trusted := map[string]bool{}
		var fnames []string
		var unsupported []string
		for _, fr := range funcs {
			fnames = append(fnames, fr.Name)
			for _, a := range fr.Assumptions {
				assum[a] = true
			}
			for _, t := range fr.Trusted {
				trusted["trusted contract: "+t] = true
			}
			for _, u := range fr.Unsupported {
				unsupported = append(unsupported, fr.Name+": "+u)
			}
		}
		for p, cs := range v.contracts {
			_ = p
			for _, l := range cs.Lemmas {
				if l.IsAxiom {
					trusted["axiom "+cs.Label+"."+l.Name+": "+l.Text] = true
				}
			}
		}
		if cExtraction != nil {
			trusted["clang-14 -O0 LLVM IR as the meaning of the C sources; tools/c2go.py (instruction-by-instruction rewriting into Go, DESIGN 3b)"] = true
		}
		trusted["go/types + x/tools go/ssa (NaiveForm) as the semantics of the Go source"] = true
		trusted["SMT solvers z3 4.8.12, z3 5.1.0, cvc5 1.0.3 (first definitive answer wins)"] = true
		trusted["engine's semantics of the SSA instruction subset (DESIGN.md appendix A)"] = true
		ev := map[string]any{
			"property_id": prop,
			"tier":        *tier,
			"seed":        verifSeed,
			"level":       "proof",
			"wall_s":      round3(wall),
			"violations":  violations,
			"coverage": map[string]any{
				"obligations":              len(ledger),
				"discharged":               discharged,
				"checker_cmd":              "bin/check " + prop + " --tier " + *tier,
				"trusted_base":             keys(trusted),
				"samples":                  samples,
				"functions_under_contract": fnames,
				"subqueries":               len(obligs),
				"subqueries_sent_to_smt":   len(jobs),
				"solver_wins":              solverWins,
				"solver_time_s":            roundMap(solverTime),
				"undecided":                undecided,
				"known_findings":           knownLines,
				"unsupported_functions":    unsupported,
				"phase_s":                  map[string]float64{"load": round3(loadS), "generate": round3(genS), "solve": round3(solveS)},
				"c_extraction":             cExtraction,
			},
			"assumptions": keys(assum),
		}
		os.MkdirAll(filepath.Join(verifDir, "evidence"), 0o755)
		data, _ := json.MarshalIndent(ev, "", " ")
		os.WriteFile(filepath.Join(verifDir, "evidence", prop+".json"), append(data, '\n'), 0o644)
	}
	fmt.Printf("%s: %d/%d ledger clauses discharged, %d sub-queries (%d to SMT), %d undecided outside ledger, %d known findings, %.1fs\n",
		prop, discharged, len(ledger), len(obligs), len(jobs), len(undecided), len(knownLines), wall)
	if len(ledger) == 0 && !*accept && *only == "" {
		fmt.Printf("VIOLATION property=%s replay=%s no obligations in ledger (vacuous check) no-failing-input-found\n", prop, ledgerFile)
		return 1
	}
	if violations > 0 {
		return 1
	}
	return 0
}

func flagSet(fs *flag.FlagSet, name string) bool {
	found := false
	fs.Visit(func(f *flag.Flag) {
		if f.Name == name {
			found = true
		}
	})
	return found
}

func dedupe(ts []*Term) []*Term {
	seen := map[string]bool{}
	var out []*Term
	for _, t := range ts {
		s := t.String()
		if !seen[s] {
			seen[s] = true
			out = append(out, t)
		}
	}
	return out
}

func keys(m map[string]bool) []string {
	out := make([]string, 0, len(m))
	for k := range m {
		out = append(out, k)
	}
	sort.Strings(out)
	return out
}

func round3(f float64) float64 { return float64(int(f*1000+0.5)) / 1000 }

func roundMap(m map[string]float64) map[string]float64 {
	out := map[string]float64{}
	for k, v := range m {
		out[k] = round3(v)
	}
	return out
}

func readLedger(file string) map[string]bool {
	out := map[string]bool{}
	data, err := os.ReadFile(file)
	if err != nil {
		return out
	}
	for _, l := range strings.Split(string(data), "\n") {
		l = strings.TrimSpace(l)
		if l == "" || strings.HasPrefix(l, "#") {
			continue
		}
		out[l] = true
	}
	return out
}

func readKnown(file, prop string) map[string]*KnownFinding {
	out := map[string]*KnownFinding{}
	data, err := os.ReadFile(file)
	if err != nil {
		return out
	}
	var all []*KnownFinding
	if err := json.Unmarshal(data, &all); err != nil {
		fmt.Fprintln(os.Stderr, "known_findings.json:", err)
		return out
	}
	for _, k := range all {
		if k.Property == prop {
			out[k.Obligation] = k
		}
	}
	return out
}

var unsafeName = regexp.MustCompile(`[^A-Za-z0-9_.-]+`)

func writeReplay(prop, clause string, cr *ClauseResult, v *Verifier) (string, bool) {
	dir := filepath.Join(verifDir, "replays", prop)
	os.MkdirAll(dir, 0o755)
	file := filepath.Join(dir, unsafeName.ReplaceAllString(clause, "_")+".json")
	rec := map[string]any{"property": prop, "obligation": clause, "reproduced": false}
	reproduced := false
	if cr == nil {
		rec["reason"] = "the clause could not be generated: its target function, loop or contract no longer exists"
	} else {
		rec["verdict"] = cr.Verdict
		rec["failed_subquery"] = cr.FailSub
		rec["solver_output"] = cr.FailInfo
		if o := cr.failed; o != nil && o.Res != nil {
			rec["verdicts"] = o.Res.All
			// re-run with models to capture a counterexample, if one exists
			q := &Query{Name: clause, Hyps: dedupe(o.Hyps), Goal: o.Goal}
			var names []string
			var tmpl *Clause
			if o.Spec != nil && o.Env != nil {
				for _, c := range o.Spec.Clauses {
					if c.Kind == "replay" {
						tmpl = c
					}
				}
			}
			var hdr []string
			if tmpl != nil {
				// replay <pkg> <template> <TestName> : name = expr ; name = expr
				parts := strings.SplitN(tmpl.Text, ":", 2)
				hdr = strings.Fields(parts[0])
				if len(parts) == 2 && len(hdr) == 3 {
					func() {
						defer func() {
							if r := recover(); r != nil {
								rec["replay_error"] = fmt.Sprint(r)
								q.Values = nil
								names = nil
							}
						}()
						for _, b := range strings.Split(parts[1], ";") {
							kv := strings.SplitN(b, "=", 2)
							if len(kv) != 2 {
								continue
							}
							ex, err := ParseSExpr(strings.TrimSpace(kv[1]))
							if err != nil {
								panic(err.Error())
							}
							val := o.Env.eval(ex)
							if len(val.L) != 1 {
								panic("replay expression is not scalar: " + kv[1])
							}
							names = append(names, strings.TrimSpace(kv[0]))
							q.Values = append(q.Values, val.L[0])
						}
					}()
				}
			}
			terms := append([]*Term(nil), q.Hyps...)
			terms = append(terms, q.Values...)
			if q.Goal != nil {
				terms = append(terms, q.Goal)
			}
			q.Axioms = v.axiomsFor(nil, terms, nil)
			res := Solve(q, 10, true)
			if res.Verdict == "sat" {
				rec["model"] = truncate(res.Output, 20000)
				if len(names) > 0 {
					vals := parseGetValue(res.Output, len(names))
					if vals != nil {
						subst := map[string]string{}
						for i, n := range names {
							subst[n] = vals[i]
						}
						rec["counterexample"] = subst
						src, err := os.ReadFile(filepath.Join(verifDir, hdr[1]))
						if err == nil {
							text := string(src)
							for n, val := range subst {
								text = strings.ReplaceAll(text, "{{"+n+"}}", val)
							}
							if strings.HasSuffix(hdr[1], ".sh") {
								gen := filepath.Join(dir, unsafeName.ReplaceAllString(clause, "_")+"_replay.sh")
								os.WriteFile(gen, []byte(text), 0o755)
								rep, out := runWitness(&Witness{Kind: "cmd", Cmd: "bash " + gen})
								reproduced = rep
								rec["replay"] = map[string]any{"kind": "ddp-program", "source": gen, "output": out, "cmd": "bash " + gen}
								goto done
							}
							gen := filepath.Join(dir, unsafeName.ReplaceAllString(clause, "_")+"_replay_test.go")
							os.WriteFile(gen, []byte(text), 0o644)
							w := &Witness{Kind: "go-test", Pkg: hdr[0], File: gen, Run: hdr[2]}
							rep, out := runWitness(w)
							reproduced = rep
							rec["replay"] = map[string]any{"kind": "go-test", "source": gen, "output": out,
								"cmd": fmt.Sprintf("cd %s && printf '{\"Replace\":{\"%s/zz_verif_witness_test.go\":\"%s\"}}' > /tmp/vgo-ov.json && GOFLAGS=-mod=mod GOPROXY=off go test -overlay /tmp/vgo-ov.json -vet=off -timeout 120s -count=1 -run '^%s$' %s",
									repoDir, filepath.Join(repoDir, strings.TrimPrefix(hdr[0], "./")), gen, hdr[2], hdr[0])}
						}
					}
				}
			}
		}
	}
done:
	rec["reproduced"] = reproduced
	data, _ := json.MarshalIndent(rec, "", " ")
	os.WriteFile(file, append(data, '\n'), 0o644)
	return file, reproduced
}

// parseGetValue extracts the values of a (get-value ...) answer: ((t1 v1) (t2 v2) ...).
func parseGetValue(out string, n int) []string {
	i := strings.Index(out, "((")
	if i < 0 {
		return nil
	}
	s := out[i+1:]
	var vals []string
	for len(vals) < n {
		// next pair "(term value)"
		j := strings.Index(s, "(")
		if j < 0 {
			return nil
		}
		depth := 0
		k := j
		for ; k < len(s); k++ {
			if s[k] == '(' {
				depth++
			} else if s[k] == ')' {
				depth--
				if depth == 0 {
					break
				}
			}
		}
		pair := s[j+1 : k]
		// value = last top-level s-expression of the pair
		pair = strings.TrimSpace(pair)
		var val string
		if strings.HasSuffix(pair, ")") {
			d := 0
			m := len(pair) - 1
			for ; m >= 0; m-- {
				if pair[m] == ')' {
					d++
				} else if pair[m] == '(' {
					d--
					if d == 0 {
						break
					}
				}
			}
			val = pair[m:]
		} else {
			val = pair[strings.LastIndexAny(pair, " \n\t")+1:]
		}
		val = strings.TrimSpace(val)
		if strings.HasPrefix(val, "(-") {
			val = "-" + strings.TrimSpace(strings.TrimSuffix(strings.TrimPrefix(val, "(-"), ")"))
		}
		vals = append(vals, val)
		s = s[k+1:]
	}
	return vals
}

func truncate(s string, n int) string {
	if len(s) > n {
		return s[:n] + "\n...[truncated]"
	}
	return s
}

func reportLoadFailure(prop, tier string, err error, start time.Time) int {
	dir := filepath.Join(verifDir, "replays", prop)
	os.MkdirAll(dir, 0o755)
	file := filepath.Join(dir, "load_failure.json")
	data, _ := json.MarshalIndent(map[string]any{"property": prop, "obligation": "load", "error": err.Error()}, "", " ")
	os.WriteFile(file, data, 0o644)
	fmt.Printf("VIOLATION property=%s replay=%s the tree does not load with -tags verif no-failing-input-found\n", prop, file)
	return 1
}

// cFilesFor lists the C runtime sources extracted for a property.
func cFilesFor(prop string) []string {
	switch prop {
	case "C12", "C05", "C06":
		return []string{"lib/runtime/source/DDP/utf8/utf8.c", "lib/runtime/source/DDP/operators.c", "lib/runtime/source/DDP/memory.c", "lib/runtime/source/DDP/ddptypes.c"}
	}
	return nil
}

// packagesFor lists the packages to load for a property.
func packagesFor(prop string) []string {
	switch prop {
	case "C12":
		return nil
	case "C01", "C02", "C05", "C06", "C07", "C10", "C16", "C18":
		return []string{"./src/...", "./cmd/kddp/..."}
	}
	return []string{"./src/ast/...", "./src/ddperror/...", "./src/ddppath/...", "./src/ddptypes/...", "./src/parser/...", "./src/scanner/...", "./src/token/..."}
}

// solveSplit proves a conjunctive goal conjunct by conjunct (smaller, more stable queries).
func solveSplit(q *Query, timeoutS int) SolverResult {
	if q.Goal == nil || q.IsCover {
		return Solve(q, timeoutS, false)
	}
	pieces := splitGoal(q.Goal)
	if len(pieces) < 2 || len(pieces) > 24 {
		return Solve(q, timeoutS, false)
	}
	// first try the whole goal quickly
	whole := Solve(q, 2, false)
	if whole.Verdict == "unsat" {
		return whole
	}
	var total SolverResult
	total.Verdict = "unsat"
	total.All = map[string]string{}
	for i, c := range pieces {
		sub := &Query{Name: fmt.Sprintf("%s [conjunct %d]", q.Name, i), Axioms: q.Axioms, Hyps: q.Hyps, Goal: c, SeedOff: q.SeedOff}
		r := Solve(sub, timeoutS, false)
		total.TimeS += r.TimeS
		total.Solver = r.Solver
		if r.Verdict != "unsat" {
			r.Output = fmt.Sprintf("conjunct %d: %s", i, r.Output)
			r.TimeS = total.TimeS
			return r
		}
	}
	return total
}

// splitGoal: "A and B" into its conjuncts, "A ==> (B and C)" into "A ==> B", "A ==> C" (equivalent as a set).
func splitGoal(t *Term) []*Term {
	if t.Kind == KApp && t.Op == "and" {
		var out []*Term
		for _, a := range t.Args {
			out = append(out, splitGoal(a)...)
		}
		return out
	}
	if t.Kind == KApp && t.Op == "=>" && len(t.Args) == 2 {
		var out []*Term
		for _, b := range splitGoal(t.Args[1]) {
			out = append(out, Implies(t.Args[0], b))
		}
		return out
	}
	return []*Term{t}
}

var axMu sync.Mutex

type oq struct {
	o *Oblig
	q *Query
}

func jobsQueries(n int, get func(int) (*Oblig, *Query)) []oq {
	var out []oq
	for i := 0; i < n; i++ {
		o, q := get(i)
		out = append(out, oq{o, q})
	}
	return out
}

// stressQueries reports, per proof query, how many (solver, seed) combinations decide it.
func stressQueries(js []oq, timeoutS int) {
	var wg sync.WaitGroup
	sem := make(chan struct{}, 5)
	var mu sync.Mutex
	type row struct {
		name string
		ok   int
		tot  int
		det  string
	}
	var rows []row
	for _, j := range js {
		if j.o.Cover || j.o.Res == nil || j.o.Res.Verdict != "unsat" {
			continue
		}
		j := j
		wg.Add(1)
		sem <- struct{}{}
		go func() {
			defer wg.Done()
			defer func() { <-sem }()
			text := j.q.SMT(false)
			queryMu.Lock()
			queryCount++
			id := queryCount
			queryMu.Unlock()
			file := filepath.Join(scratchDir, fmt.Sprintf("stress%06d.smt2", id))
			os.WriteFile(file, []byte(text), 0o644)
			defer os.Remove(file)
			ok, tot := 0, 0
			det := ""
			for _, sp := range solvers {
				for seed := 1; seed <= 3; seed++ {
					saved := verifSeed
					_ = saved
					args := sp.args(file, timeoutS, seed)
					cmd := exec.Command(args[0], args[1:]...)
					out, _ := cmd.CombinedOutput()
					first := strings.TrimSpace(strings.SplitN(strings.TrimSpace(string(out)), "\n", 2)[0])
					tot++
					if first == "unsat" {
						ok++
						det += "+"
					} else {
						det += "-"
					}
				}
				det += " "
			}
			mu.Lock()
			rows = append(rows, row{j.q.Name, ok, tot, det})
			mu.Unlock()
		}()
	}
	wg.Wait()
	sort.Slice(rows, func(a, b int) bool { return rows[a].ok < rows[b].ok })
	fmt.Fprintln(os.Stderr, "stress: (z3-new z3 cvc5) x seeds 1..3")
	for _, r := range rows {
		if r.ok < 4 {
			fmt.Fprintf(os.Stderr, "  FRAGILE %d/%d [%s] %s\n", r.ok, r.tot, r.det, r.name)
		}
	}
	fmt.Fprintf(os.Stderr, "stress: %d queries checked\n", len(rows))
}
