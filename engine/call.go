package main

// Calls: builtins, contracts, inlining, pure function values, havoc.

import (
	"fmt"
	"go/types"
	"strings"

	"golang.org/x/tools/go/ssa"
)

const maxInlineDepth = 8

func (r *Run) call(st *State, fr *Frame, x *ssa.Call, b *ssa.BasicBlock, idx int, prev *ssa.BasicBlock) bool {
	com := x.Common()
	te := fr.te
	if bi, ok := com.Value.(*ssa.Builtin); ok {
		if fr.depth == 0 {
			if st.calls == nil {
				st.calls = map[string]int{}
			}
			st.calls[bi.Name()]++
			if fr.spec != nil {
				for _, c := range fr.spec.ClausesOf("ordered") {
					for _, f := range strings.Fields(strings.ReplaceAll(c.Text, ",", " ")) {
						if f == bi.Name() {
							r.oblige(st, fmt.Sprintf("ordered(%s)", f), c.Props, r.v.pos(x.Pos()), BoolLit(!inMapRangeLoop(fr.fn, b)))
						}
					}
				}
			}
		}
		fr.regs[x] = r.builtin(st, fr, x, bi)
		return true
	}
	var args []*Val
	callee := com.StaticCallee()
	if callee != nil && callee.Name() == "ssa:deferstack" {
		fr.regs[x] = &Val{T: x.Type(), L: []*Term{IntLit(0)}}
		return true
	}
	if com.IsInvoke() {
		args = append(args, r.valueOf(st, fr, com.Value))
	}
	for _, a := range com.Args {
		args = append(args, r.valueOf(st, fr, a))
	}
	cont := func(st2 *State, res *Val) {
		fr.regs[x] = res
		r.execInstrs(st2, fr, b, idx+1, prev)
	}
	if fr.depth == 0 {
		nm := ""
		if callee != nil {
			nm = callee.Name()
		} else if com.IsInvoke() {
			nm = com.Method.Name()
		}
		if nm != "" {
			if st.calls == nil {
				st.calls = map[string]int{}
			}
			st.calls[nm]++
			// "ordered F": a call of F is never made from inside a loop that ranges over a map (whose iteration order
			// the Go runtime randomises): the sequence of such calls is then the same on every run
			if fr.spec != nil {
				for _, c := range fr.spec.ClausesOf("ordered") {
					for _, f := range strings.Fields(strings.ReplaceAll(c.Text, ",", " ")) {
						if f == nm {
							r.oblige(st, fmt.Sprintf("ordered(%s)", nm), c.Props, r.v.pos(x.Pos()), BoolLit(!inMapRangeLoop(fr.fn, b)))
						}
					}
				}
			}
		}
	}
	if fr.depth == 0 && fr.spec != nil {
		for _, c := range fr.spec.Clauses {
			if c.Kind == "callsite" {
				name := ""
				if callee != nil {
					name = callee.Name()
				} else if com.IsInvoke() {
					name = com.Method.Name()
				} else {
					name = dynCalleeName(com.Value) // call of a function-typed variable: its source name
				}
				if name == c.Text {
					env := r.specEnv(st, fr, "inv")
					vars := map[string]*Val{}
					for i, a := range args {
						vars[fmt.Sprintf("arg%d", i)] = a
					}
					g := env.with(vars).evalBool(c.Expr)
					r.oblige(st, fmt.Sprintf("callsite(%s).requires%d", c.Text, c.Ord), c.Props, r.v.pos(x.Pos()), g)
					st.assume(g)
				}
				continue
			}
			if c.Kind != "at" {
				continue
			}
			// at LABEL before call NAME
			f := strings.Fields(c.Text)
			if len(f) == 4 && f[1] == "before" && f[2] == "call" {
				name := ""
				if callee != nil {
					name = callee.Name()
				} else if com.IsInvoke() {
					name = com.Method.Name()
				}
				if name == f[3] {
					if _, dup := fr.snaps[f[0]]; !dup {
						if fr.snaps == nil {
							fr.snaps = map[string]*State{}
						}
						fr.snaps[f[0]] = st.clone()
						r.labelReached(f[0])
					}
				}
			}
		}
	}
	if callee != nil {
		origin := callee
		cte := TypeEnv{}
		if o := callee.Origin(); o != nil {
			origin = o
			tps := o.TypeParams()
			tas := callee.TypeArgs()
			for i := 0; i < tps.Len() && i < len(tas); i++ {
				cte[tps.At(i).Obj().Name()] = te.apply(tas[i])
			}
		}
		// closures: free variables come from the MakeClosure bindings
		var free []*Val
		if mc, ok := com.Value.(*ssa.MakeClosure); ok {
			for _, bnd := range mc.Bindings {
				free = append(free, r.valueOf(st, fr, bnd))
			}
		}
		spec, cs := r.v.specFor(origin)
		if spec != nil && !spec.Has("inline") {
			r.pendingFree = free
			defer func() { r.pendingFree = nil }()
			res := r.applyContract(st, fr, x, origin, spec, cs, args, cte)
			fr.regs[x] = res
			return true
		}
		if spec == nil && strings.HasSuffix(fnPkgPath(origin), "/lib/runtime/ddprt") && len(origin.Blocks) == 1 {
			if _, isPanic := origin.Blocks[0].Instrs[len(origin.Blocks[0].Instrs)-1].(*ssa.Panic); isPanic {
				// an extern stub of the extracted C runtime: it must not be "executed"
				r.unsup("C function %s is opaque (libc or not extracted) and has no contract", origin.Name())
			}
		}
		if r.inlinable(origin, fr) {
			r.inline(st, fr, origin, spec, cs, args, free, cte, cont)
			return false
		}
		r.havocCall(st, fr, x, origin.String(), args)
		return true
	}
	if com.IsInvoke() {
		// calling a method on a nil interface value panics
		r.safety(st, fr, "safe.nilrecv", x.Pos(), Neq(args[0].L[0], App("anynil", SAny)))
		if spec := r.v.methodSpec(com); spec != nil {
			res := r.applyContract(st, fr, x, nil, spec, spec.Pkg, args, te)
			fr.regs[x] = res
			return true
		}
		r.havocCall(st, fr, x, "invoke "+com.Method.FullName(), args)
		return true
	}
	// dynamic call of a function value
	fv := r.valueOf(st, fr, com.Value)
	ci, ok := st.closure[fv.L[0].String()]
	if !ok {
		if fn, isFn := fnByTerm[fv.L[0].String()]; isFn {
			ci, ok = &closureInfo{fn: fn}, true
		}
	}
	if ok {
		spec, cs := r.v.specFor(ci.fn)
		if spec != nil && !spec.Has("inline") {
			r.pendingFree = ci.bindings
			fr.regs[x] = r.applyContract(st, fr, x, ci.fn, spec, cs, args, te)
			r.pendingFree = nil
			return true
		}
		if r.inlinable(ci.fn, fr) {
			r.inline(st, fr, ci.fn, spec, cs, args, ci.bindings, te, cont)
			return false
		}
	}
	if spec := r.v.funcTypeSpec(com.Value.Type()); spec != nil {
		fr.regs[x] = r.applyContract(st, fr, x, nil, spec, spec.Pkg, append([]*Val{fv}, args...), te)
		return true
	}
	if r.v.isPureFuncType(com.Value.Type()) || r.isPureField(fr, com.Value) {
		sig := types.Unalias(te.apply(com.Value.Type())).Underlying().(*types.Signature)
		fr.regs[x] = r.applyPureFuncValue(fv, sig, args, te)
		return true
	}
	if ev := r.eventFor(fr, com.Value); ev != "" {
		st.events = append(st.events, ev)
		r.ghostEvent(st, fr, ev, args)
		fr.regs[x] = freshVal(x.Type(), "ev", te)
		return true
	}
	r.havocCall(st, fr, x, "dynamic call", args)
	return true
}

func (r *Run) eventFor(fr *Frame, v ssa.Value) string { return "" }

func (r *Run) ghostEvent(st *State, fr *Frame, ev string, args []*Val) {}

func (r *Run) applyPureFuncValue(fv *Val, sig *types.Signature, args []*Val, te TypeEnv) *Val {
	flat := []*Term{fv.L[0]}
	for _, a := range args {
		flat = append(flat, a.L...)
	}
	var sorts []string
	for _, a := range flat {
		sorts = append(sorts, string(a.Sort))
	}
	out := &Val{T: sig.Results()}
	if sig.Results().Len() == 1 {
		out.T = sig.Results().At(0).Type()
	}
	for _, l := range layoutTE(sig.Results(), te) {
		name := "apply!" + strings.Join(sorts, "!") + "!" + string(l.Sort) + leafSuffix(l.Path)
		out.L = append(out.L, UF(name, l.Sort, flat...))
	}
	return out
}

func (r *Run) inlinable(fn *ssa.Function, fr *Frame) bool {
	if fn.Blocks == nil || fr.depth >= maxInlineDepth {
		return false
	}
	if !strings.HasPrefix(fnPkgPath(fn), modPath) {
		return false // code outside the repository is never executed: contract or havoc
	}
	for f := fr; f != nil; f = f.parent {
		if f.fn == fn {
			return false // recursion
		}
	}
	spec, _ := r.v.specFor(fn)
	if spec != nil && spec.Has("inline") {
		return true
	}
	if spec != nil && spec.Has("noinline") {
		return false
	}
	n := 0
	for _, b := range fn.Blocks {
		n += len(b.Instrs)
	}
	if fn.Parent() != nil {
		return n <= 400 // closures are part of their parent
	}
	return n <= 60
}

func (r *Run) inline(st *State, fr *Frame, fn *ssa.Function, spec *FuncSpec, cs *ContractSet, args []*Val, free []*Val, te TypeEnv, cont func(*State, *Val)) {
	if cs == nil {
		cs = r.v.contractsOfFn(fn)
	}
	nf := &Frame{fn: fn, regs: map[ssa.Value]*Val{}, cellOf: map[*ssa.Alloc]int{}, te: te, depth: fr.depth + 1, parent: fr,
		loops: analyseLoops(fn), cs: cs, spec: spec, params: map[string]*Val{}, free: map[*ssa.FreeVar]*Val{}}
	for i, p := range fn.Params {
		if i < len(args) {
			a := r.coerceArg(args[i], p.Type(), te)
			nf.regs[p] = a
			nf.params[p.Name()] = a
		}
	}
	for i, fv := range fn.FreeVars {
		if i < len(free) {
			nf.free[fv] = free[i]
		}
	}
	nf.entry = st.clone()
	nf.ret = func(_ *Frame, st2 *State, res *Val) { cont(st2, res) }
	r.execBlock(st, nf, fn.Blocks[0], nil)
}

func (r *Run) coerceArg(a *Val, pt types.Type, te TypeEnv) *Val {
	if isNilVal(a) {
		return zeroVal(pt, te)
	}
	return &Val{T: pt, L: a.L, A: a.A}
}

// havocCall models a call about which nothing is known.
func (r *Run) havocCall(st *State, fr *Frame, x *ssa.Call, what string, args []*Val) {
	r.note("call without contract havocs the heap: " + what + " (from " + fr.fn.Name() + ")")
	r.havocAllKeepingLocals(st, fr, args)
	// local cells whose address was passed may change as well
	for _, a := range args {
		if a.A != nil && a.A.Kind == ALocal {
			c := st.cells[a.A.Cell]
			st.cells[a.A.Cell] = freshVal(c.T, "hv.cell", fr.te)
		}
	}
	// closures passed along may write their captured cells
	for _, a := range args {
		if len(a.L) == 1 {
			if ci, ok := st.closure[a.L[0].String()]; ok {
				for _, bv := range ci.bindings {
					if bv.A != nil && bv.A.Kind == ALocal {
						c := st.cells[bv.A.Cell]
						st.cells[bv.A.Cell] = freshVal(c.T, "hv.cell", fr.te)
					}
				}
			}
		}
	}
	res := freshVal(x.Type(), "call", fr.te)
	r.assumeWF(st, res, fr.te)
	fr.regs[x] = res
}

// applyContract replaces a call by the callee's contract.
func (r *Run) applyContract(st *State, fr *Frame, x *ssa.Call, callee *ssa.Function, spec *FuncSpec, cs *ContractSet, args []*Val, cte TypeEnv) *Val {
	if spec.Trusted {
		r.trustedUsed[spec.Pkg.Label+"."+spec.Target] = true
	}
	vars := map[string]*Val{}
	var pnames []string
	var sig *types.Signature
	if callee != nil {
		sig = callee.Signature
		for i, p := range callee.Params {
			if i < len(args) {
				a := r.coerceArg(args[i], p.Type(), cte)
				vars[p.Name()] = a
				pnames = append(pnames, p.Name())
			}
		}
	} else {
		// interface method / function value: receiver is "recv", parameters by declared name or p0, p1, ...
		if m := x.Common().Method; m != nil {
			sig = m.Type().(*types.Signature)
		} else {
			sig = types.Unalias(cte.apply(x.Common().Value.Type())).Underlying().(*types.Signature)
		}
		vars["recv"] = args[0]
		for i := 0; i < sig.Params().Len(); i++ {
			n := sig.Params().At(i).Name()
			if n == "" || n == "_" {
				n = fmt.Sprintf("p%d", i)
			}
			vars[n] = r.coerceArg(args[i+1], sig.Params().At(i).Type(), cte)
		}
	}
	env := &SpecEnv{run: r, st: st, cs: cs, te: cte, mode: "pre", vars: vars, fn: callee}
	var freePtrs map[string]freeBinding
	if callee != nil && len(callee.FreeVars) > 0 && len(r.pendingFree) == len(callee.FreeVars) {
		freePtrs = map[string]freeBinding{}
		for i, fv := range callee.FreeVars {
			freePtrs[fv.Name()] = freeBinding{ptr: r.pendingFree[i], t: derefType(fv.Type())}
		}
		env.freePtrs = freePtrs
	}
	cname := spec.Target
	for _, c := range spec.ClausesOf("requires") {
		if c.Tagged && currentProp != "" {
			// a precondition tagged for specific properties (trusted library contracts): only those checks carry it
			rel := false
			for _, p := range c.Props {
				if p == currentProp {
					rel = true
				}
			}
			if !rel {
				continue
			}
		}
		g := env.evalBool(c.Expr)
		props := []string(nil)
		if r.spec != nil {
			props = r.spec.Props
		}
		r.oblige(st, fmt.Sprintf("call(%s).requires%d", cname, c.Ord), props, r.v.pos(x.Pos()), g)
		if r.spec != nil {
			top := fr
			for top.parent != nil {
				top = top.parent
			}
			last := r.obligs[len(r.obligs)-1]
			last.Env = r.specEnv(st, top, "post")
			last.Spec = r.spec
		}
		st.assume(g)
	}
	// termination of recursion: a call to the function under verification must decrease its measure
	if callee != nil && callee == r.fn && fr.depth == 0 {
		for _, c := range spec.ClausesOf("decreases") {
			m1 := env.evalInt(c.Expr)
			cur := r.specEnv(st, fr, "pre")
			cur.st = fr.entry
			m0 := cur.evalInt(c.Expr)
			r.oblige(st, "decreases", c.Props, r.v.pos(x.Pos()), And(Ge(m0, IntLit(0)), Lt(m1, m0)))
		}
	}
	pre := st.clone()
	// result
	var res *Val
	rt := x.Type()
	if spec.Has("pure") {
		res = r.v.pureResult(spec, cs, callee, sig, args, cte, rt)
	} else {
		res = freshVal(rt, "ret."+strings.Trim(cname, "()*"), cte)
		res.T = rt
	}
	freshResult := spec.Has("freshresult")
	// frame
	comps, all := r.specModifies(spec)
	if !spec.Has("pure") {
		hasMod := len(spec.ClausesOf("modifies")) > 0
		if all || !hasMod {
			if !hasMod {
				r.note("contract of " + cname + " has no modifies clause: heap havocked at call")
			}
			r.havocAllKeepingLocals(st, fr, args)
		} else {
			st.bumpTop()
			for c := range comps {
				r.havocPrefix(st, c)
			}
		}
	}
	if freshResult && len(res.L) >= 1 && res.L[0].Sort == SInt {
		// (for a struct result such as the C pointer (block, offset): its first component)
		res.L[0] = st.freshRef()
	}
	r.assumeWF(st, res, cte)
	post := &SpecEnv{run: r, st: st, old: pre, cs: cs, te: cte, mode: "pre", vars: vars, fn: callee, freePtrs: freePtrs}
	post.result = res
	post = post.with(r.resultVars(spec, sig, res, cte))
	for _, c := range spec.ClausesOf("set") {
		post.assign(c.Lhs, post.eval(c.Expr))
	}
	for _, c := range spec.ClausesOf("postassume") {
		// a postcondition that callers may rely on but that is NOT proved for the function itself (recorded assumption)
		r.note("assumed (unproved) postcondition of " + cname + ": " + c.Text)
		st.assume(post.evalBool(c.Expr))
	}
	for _, c := range spec.ClausesOf("ensures") {
		func() {
			defer func() {
				if rec := recover(); rec != nil {
					if _, ok := rec.(skipClause); ok {
						return // clause about callee-internal program points: not usable here (sound: fewer assumptions)
					}
					if se, ok := rec.(specErr); ok && strings.Contains(se.msg, "unknown identifier") {
						return // clause about the callee's local variables: not usable here either
					}
					panic(rec)
				}
			}()
			st.assume(post.evalBool(c.Expr))
		}()
	}
	return res
}

// resultVars binds result names.
func (r *Run) resultVars(spec *FuncSpec, sig *types.Signature, res *Val, te TypeEnv) map[string]*Val {
	vars := map[string]*Val{"result": res}
	names := spec.Returns
	rs := sig.Results()
	if len(names) == 0 {
		for i := 0; i < rs.Len(); i++ {
			if n := rs.At(i).Name(); n != "" && n != "_" {
				names = append(names, n)
			} else {
				names = append(names, fmt.Sprintf("result%d", i))
			}
		}
	}
	if rs.Len() == 1 {
		if len(names) > 0 {
			vars[names[0]] = res
		}
		return vars
	}
	for i := 0; i < rs.Len() && i < len(names); i++ {
		lo, hi := tupleRange(rs, i, te)
		vars[names[i]] = &Val{T: rs.At(i).Type(), L: res.L[lo:hi]}
	}
	return vars
}

func (r *Run) builtin(st *State, fr *Frame, x *ssa.Call, bi *ssa.Builtin) *Val {
	te := fr.te
	com := x.Common()
	arg := func(i int) *Val { return r.valueOf(st, fr, com.Args[i]) }
	switch bi.Name() {
	case "len":
		v := arg(0)
		switch tt := types.Unalias(te.apply(com.Args[0].Type())).Underlying().(type) {
		case *types.Slice:
			return &Val{T: x.Type(), L: []*Term{v.L[2]}}
		case *types.Basic:
			return &Val{T: x.Type(), L: []*Term{StrLen(v.L[0])}}
		case *types.Map:
			n := UF("maplen!"+typeName(tt), SInt, v.L[0], st.comp("map:"+typeName(te.apply(com.Args[0].Type()))+"#present", ArrSort(SInt, ArrSort(layoutTE(tt.Key(), te)[0].Sort, SBool))))
			st.assume(Ge(n, IntLit(0)))
			return &Val{T: x.Type(), L: []*Term{n}}
		case *types.Array:
			return &Val{T: x.Type(), L: []*Term{IntLit(tt.Len())}}
		}
	case "cap":
		v := arg(0)
		if len(v.L) == 4 {
			return &Val{T: x.Type(), L: []*Term{v.L[3]}}
		}
	case "append":
		return r.appendOp(st, fr, x)
	case "copy":
		return r.copyOp(st, fr, x)
	case "delete":
		mv := arg(0)
		kv := arg(1)
		mt := types.Unalias(te.apply(com.Args[0].Type())).Underlying().(*types.Map)
		ks := layoutTE(mt.Key(), te)
		pn := "map:" + typeName(te.apply(com.Args[0].Type())) + "#present"
		ph := st.comp(pn, ArrSort(SInt, ArrSort(ks[0].Sort, SBool)))
		st.heap[pn] = Store(ph, mv.L[0], Store(Select(ph, mv.L[0]), kv.L[0], False))
		return &Val{T: x.Type()}
	case "clear":
		mv := arg(0)
		if mt, ok := types.Unalias(te.apply(com.Args[0].Type())).Underlying().(*types.Map); ok {
			ks := layoutTE(mt.Key(), te)
			if len(ks) != 1 {
				_, ks = compositeKey(&Val{T: mt.Key(), L: zeroVal(mt.Key(), te).L}, mt.Key(), te)
			}
			pn := "map:" + typeName(te.apply(com.Args[0].Type())) + "#present"
			ph := st.comp(pn, ArrSort(SInt, ArrSort(ks[0].Sort, SBool)))
			// no key is present any more
			st.heap[pn] = Store(ph, mv.L[0], App("(as const "+string(ArrSort(ks[0].Sort, SBool))+")", ArrSort(ks[0].Sort, SBool), False))
			return &Val{T: x.Type()}
		}
		r.unsup("clear of a non-map")
	case "print", "println":
		return &Val{T: x.Type()}
	case "recover":
		return &Val{T: x.Type(), L: []*Term{App("anynil", SAny)}}
	case "min", "max":
		a, b := arg(0).L[0], arg(1).L[0]
		if bi.Name() == "min" {
			return &Val{T: x.Type(), L: []*Term{Ite(Le(a, b), a, b)}}
		}
		return &Val{T: x.Type(), L: []*Term{Ite(Ge(a, b), a, b)}}
	case "ssa:wrapnilchk":
		return arg(0)
	case "ssa:deferstack":
		return &Val{T: x.Type(), L: []*Term{IntLit(0)}}
	}
	r.unsup("builtin %s", bi.Name())
	return nil
}

// appendOp implements Go's append exactly: in place iff len+n <= cap, else a fresh array.
func (r *Run) appendOp(st *State, fr *Frame, x *ssa.Call) *Val {
	te := fr.te
	com := x.Common()
	s := r.valueOf(st, fr, com.Args[0])
	t := r.valueOf(st, fr, com.Args[1])
	sl, ok := types.Unalias(te.apply(com.Args[0].Type())).Underlying().(*types.Slice)
	if !ok {
		r.unsup("append on %s", com.Args[0].Type())
	}
	if len(t.L) != 4 {
		if len(t.L) == 1 && t.L[0].Sort == SStr {
			r.unsup("append(bytes, string...)")
		}
		// nil second argument
		t = zeroVal(com.Args[0].Type(), te)
	}
	if len(s.L) != 4 {
		s = zeroVal(com.Args[0].Type(), te)
	}
	el := sl.Elem()
	base := "[]" + typeName(te.apply(el))
	n := t.L[2]
	newLen := Add(s.L[2], n)
	fits := Le(newLen, s.L[3])
	// fresh array for the growing case
	arrNew := st.freshRef()
	capNew := Var(freshName("cap.app"), SInt)
	st.assume(Ge(capNew, newLen))
	resArr := Ite(fits, s.L[0], arrNew)
	resOff := Ite(fits, s.L[1], IntLit(0))
	resCap := Ite(fits, s.L[3], capNew)
	for _, l := range layoutTE(el, te) {
		name := joinPath(base, l.Path)
		asort := ArrSort(SInt, l.Sort)
		h := st.comp(name, ArrSort(SInt, asort))
		src := Select(h, t.L[0])
		dstOld := Select(h, s.L[0])
		// contents of the result array, described by a fresh array with quantified facts
		nw := Var(freshName("appcells!"+name), asort)
		j := Bound(freshName("j"), SInt)
		// in place: cells outside [off+len, off+len+n) unchanged, new cells = src (memmove semantics: read from the old heap)
		inplace := Forall([]*Term{j}, Eq(Select(nw, j),
			Ite(And(Ge(j, Add(s.L[1], s.L[2])), Lt(j, Add(s.L[1], newLen))),
				Select(src, Add(t.L[1], Sub(j, Add(s.L[1], s.L[2])))),
				Select(dstOld, j))))
		j2 := Bound(freshName("j"), SInt)
		grown := Forall([]*Term{j2}, Implies(And(Ge(j2, IntLit(0)), Lt(j2, newLen)), Eq(Select(nw, j2),
			Ite(Lt(j2, s.L[2]), Select(dstOld, Add(s.L[1], j2)), Select(src, Add(t.L[1], Sub(j2, s.L[2])))))))
		st.assume(Ite(fits, inplace, grown))
		st.heap[name] = Store(h, resArr, nw)
	}
	return &Val{T: x.Type(), L: []*Term{resArr, resOff, newLen, resCap}}
}

func (r *Run) copyOp(st *State, fr *Frame, x *ssa.Call) *Val {
	te := fr.te
	com := x.Common()
	d := r.valueOf(st, fr, com.Args[0])
	s := r.valueOf(st, fr, com.Args[1])
	sl, ok := types.Unalias(te.apply(com.Args[0].Type())).Underlying().(*types.Slice)
	if !ok || len(s.L) != 4 {
		r.unsup("copy with non-slice operands")
	}
	el := sl.Elem()
	base := "[]" + typeName(te.apply(el))
	n := Ite(Le(d.L[2], s.L[2]), d.L[2], s.L[2])
	for _, l := range layoutTE(el, te) {
		name := joinPath(base, l.Path)
		asort := ArrSort(SInt, l.Sort)
		h := st.comp(name, ArrSort(SInt, asort))
		src := Select(h, s.L[0])
		dstOld := Select(h, d.L[0])
		nw := Var(freshName("copycells!"+name), asort)
		j := Bound(freshName("j"), SInt)
		st.assume(Forall([]*Term{j}, Eq(Select(nw, j),
			Ite(And(Ge(j, d.L[1]), Lt(j, Add(d.L[1], n))), Select(src, Add(s.L[1], Sub(j, d.L[1]))), Select(dstOld, j)))))
		st.heap[name] = Store(h, d.L[0], nw)
	}
	return &Val{T: x.Type(), L: []*Term{n}}
}

// havocAllKeepingLocals havocs the heap but keeps the contents of the executing frames' own
// escaping local variables, unless a pointer to them (directly or through a closure) is handed
// to the callee. (A callee cannot name a caller's local variable otherwise.)
func (r *Run) havocAllKeepingLocals(st *State, fr *Frame, args []*Val) {
	escaped := map[string]bool{}
	var mark func(v *Val, depth int)
	mark = func(v *Val, depth int) {
		if v == nil || depth > 3 {
			return
		}
		for _, l := range v.L {
			if l.Sort == SInt {
				escaped[l.String()] = true
				if ci, ok := st.closure[l.String()]; ok {
					for i, b := range ci.bindings {
						if i < len(ci.fn.FreeVars) && !closureWrites(ci.fn, ci.fn.FreeVars[i], 0) {
							continue
						}
						mark(b, depth+1)
					}
				}
			}
		}
	}
	for _, a := range args {
		mark(a, 0)
	}
	type saved struct {
		b *localBox
		v *Val
	}
	var keep []saved
	for _, b := range st.boxes {
		if escaped[b.addr.Ref.String()] || st.escaped[b.addr.Ref.String()] {
			continue
		}
		keep = append(keep, saved{b, r.load(st, b.addr, b.t, fr.te)})
	}
	// components the contract declares out of reach of unknown callees (an assumption, recorded)
	preserved := map[string]*Term{}
	top := fr
	for top.parent != nil {
		top = top.parent
	}
	if top.spec != nil {
		for _, c := range top.spec.ClausesOf("preserves") {
			for _, p := range strings.Split(c.Text, ",") {
				p = strings.TrimSpace(p)
				if p == "" {
					continue
				}
				r.note("unknown callees of " + r.fname + " are assumed not to reach " + p + " ('preserves' clause)")
				for name, t := range st.heap {
					if name == p || strings.HasPrefix(name, p+".") || strings.HasPrefix(name, p+"#") {
						preserved[name] = t
					}
				}
			}
		}
	}
	st.havocAll()
	for name, t := range preserved {
		st.heap[name] = t
	}
	for _, k := range keep {
		r.store(st, k.b.addr, k.v, fr.te)
	}
}

// dynCalleeName gives the source-level name of the variable a dynamically called function value was read from.
func dynCalleeName(v ssa.Value) string {
	switch x := v.(type) {
	case *ssa.UnOp:
		switch a := x.X.(type) {
		case *ssa.Alloc:
			return a.Comment
		case *ssa.FreeVar:
			return a.Name()
		case *ssa.FieldAddr:
			if st := structOf(a.X.Type()); st != nil {
				return st.Field(a.Field).Name()
			}
		}
	case *ssa.Parameter:
		return x.Name()
	}
	return ""
}

// inMapRangeLoop: does block b belong to the natural loop of a header that advances a map iterator?
func inMapRangeLoop(fn *ssa.Function, b *ssa.BasicBlock) bool {
	for _, h := range fn.Blocks {
		isMapHdr := false
		for _, in := range h.Instrs {
			if nx, ok := in.(*ssa.Next); ok && !nx.IsString {
				if rg, ok := nx.Iter.(*ssa.Range); ok {
					if _, isMap := types.Unalias(rg.X.Type()).Underlying().(*types.Map); isMap {
						isMapHdr = true
					}
				}
			}
		}
		if !isMapHdr {
			continue
		}
		// natural loop of h: h plus every block that reaches a back edge t->h (h dominates t) without passing h
		body := map[*ssa.BasicBlock]bool{h: true}
		var work []*ssa.BasicBlock
		for _, t := range h.Preds {
			if h.Dominates(t) && !body[t] {
				body[t] = true
				work = append(work, t)
			}
		}
		for len(work) > 0 {
			t := work[len(work)-1]
			work = work[:len(work)-1]
			for _, p := range t.Preds {
				if !body[p] {
					body[p] = true
					work = append(work, p)
				}
			}
		}
		if body[b] && b != h {
			return true
		}
	}
	return false
}
