package main

// Symbolic execution of go/ssa (NaiveForm) functions, path by path, with loops cut by
// invariants and calls replaced by contracts.

import (
	"os"
	"math/big"
	"sync"
	"fmt"
	"go/constant"
	"go/token"
	"go/types"
	"sort"
	"strings"

	"golang.org/x/tools/go/ssa"
)

type openLoop struct {
	variant []*Term
	calls   map[string]int // calls executed on this path when the loop head was passed (for "loop K each F when E")
}

type State struct {
	calls   map[string]int // number of calls per callee name executed on this path (top frame)
	pc      []*Term
	cells   map[int]*Val
	heap    map[string]*Term
	epoch   int
	open    map[*ssa.BasicBlock]*openLoop
	fresh   []*Term
	closure map[string]*closureInfo
	events  []string
	hv      map[string]int // havocked component prefixes -> epoch
	top     *Term          // allocation watermark: every existing reference is <= top
	boxes   []*localBox    // heap cells of local variables of the frames being executed
	facts   map[string]*Term // term -> literal it is known to equal on this path
	escaped map[string]bool  // references of local boxes that unknown code may reach (through stored closures / pointers)
}

// localBox is an escaping local variable (captured by a closure or address-taken).
type localBox struct {
	addr  *Addr
	t     types.Type
	alloc *ssa.Alloc
}

type closureInfo struct {
	fn       *ssa.Function
	bindings []*Val
}

func newState() *State {
	st := &State{cells: map[int]*Val{}, heap: map[string]*Term{}, open: map[*ssa.BasicBlock]*openLoop{}, closure: map[string]*closureInfo{}}
	st.top = Var("alloc0", SInt)
	st.pc = append(st.pc, Ge(st.top, IntLit(0)))
	return st
}

// freshRef allocates a reference distinct from every existing one.
func (s *State) freshRef() *Term {
	s.top = Add(s.top, IntLit(1))
	return s.top
}

// bumpTop models allocations by code that is not executed (callees, havocked loops).
func (s *State) bumpTop() {
	nt := Var(freshName("alloc"), SInt)
	s.pc = append(s.pc, Ge(nt, s.top))
	s.top = nt
}

func (s *State) clone() *State {
	n := &State{epoch: s.epoch, top: s.top}
	if s.calls != nil {
		n.calls = make(map[string]int, len(s.calls))
		for k, v := range s.calls {
			n.calls[k] = v
		}
	}
	n.pc = append([]*Term(nil), s.pc...)
	n.cells = make(map[int]*Val, len(s.cells))
	for k, v := range s.cells {
		n.cells[k] = v
	}
	n.heap = make(map[string]*Term, len(s.heap))
	for k, v := range s.heap {
		n.heap[k] = v
	}
	n.open = make(map[*ssa.BasicBlock]*openLoop, len(s.open))
	for k, v := range s.open {
		n.open[k] = v
	}
	n.fresh = append([]*Term(nil), s.fresh...)
	n.boxes = append([]*localBox(nil), s.boxes...)
	if len(s.escaped) > 0 {
		n.escaped = make(map[string]bool, len(s.escaped))
		for k, v := range s.escaped {
			n.escaped[k] = v
		}
	}
	if len(s.facts) > 0 {
		n.facts = make(map[string]*Term, len(s.facts))
		for k, v := range s.facts {
			n.facts[k] = v
		}
	}
	n.closure = make(map[string]*closureInfo, len(s.closure))
	for k, v := range s.closure {
		n.closure[k] = v
	}
	n.events = append([]string(nil), s.events...)
	if len(s.hv) > 0 {
		n.hv = make(map[string]int, len(s.hv))
		for k, v := range s.hv {
			n.hv[k] = v
		}
	}
	return n
}

func (s *State) assume(t *Term) {
	if t.IsTrue() {
		return
	}
	t = expandSmallRanges(t)
	if len(s.facts) > 0 {
		// simplifying with facts that are themselves consequences of the path condition is sound
		t = s.simplify(t, 0)
		if t.IsTrue() {
			return
		}
	}
	s.pc = append(s.pc, t)
	s.learn(t)
}

// learn records equalities with literals so that later branch conditions can be decided syntactically.
func (s *State) learn(t *Term) {
	if t.Kind != KApp {
		return
	}
	switch t.Op {
	case "and":
		for _, a := range t.Args {
			s.learn(a)
		}
	case "not":
		if e := t.Args[0]; e.Kind == KApp && e.Op == "=" && len(e.Args) == 2 {
			if s.facts == nil {
				s.facts = map[string]*Term{}
			}
			s.facts["!distinct:"+e.Args[0].String()+"|"+e.Args[1].String()] = True
			s.facts["!distinct:"+e.Args[1].String()+"|"+e.Args[0].String()] = True
		}
	case "=":
		a, b := t.Args[0], t.Args[1]
		if a.Kind == KLit && b.Kind != KLit {
			a, b = b, a
		}
		if b.Kind == KLit && a.Kind != KLit {
			if s.facts == nil {
				s.facts = map[string]*Term{}
			}
			s.facts[a.String()] = b
		} else if a.Kind == KVar && b.Kind != KVar && termSize(b, 60) < 60 {
			// a fresh symbol (call result) defined by an equation: substitute its definition
			if s.facts == nil {
				s.facts = map[string]*Term{}
			}
			if _, dup := s.facts[a.String()]; !dup {
				s.facts[a.String()] = b
			}
		} else if b.Kind == KVar && a.Kind != KVar && termSize(a, 60) < 60 {
			if s.facts == nil {
				s.facts = map[string]*Term{}
			}
			if _, dup := s.facts[b.String()]; !dup {
				s.facts[b.String()] = a
			}
		}
	}
}

// decide simplifies a branch condition using the recorded facts (equalities with literals and disequalities).
func (s *State) decide(c *Term) *Term {
	if len(s.facts) == 0 {
		return c
	}
	return s.simplify(c, 0)
}

func (s *State) simplify(t *Term, depth int) *Term {
	if depth > 40 || t.Kind == KLit || t.Kind == KQuant {
		return t
	}
	if v, ok := s.facts[t.String()]; ok {
		return v
	}
	if t.Kind != KApp || len(t.Args) == 0 {
		return t
	}
	args := make([]*Term, len(t.Args))
	changed := false
	for i, a := range t.Args {
		args[i] = s.simplify(a, depth+1)
		if args[i] != a {
			changed = true
		}
	}
	var out *Term = t
	if changed {
		out = rebuild(t, args)
	}
	if out.Kind == KApp && out.Op == "=" && len(out.Args) == 2 {
		if s.facts["!distinct:"+out.Args[0].String()+"|"+out.Args[1].String()] != nil {
			return False
		}
	}
	return out
}

// selectKnown reads an object-indexed heap array at reference ref, skipping stores to references that are known to
// be different objects: by a recorded disequality, or because the store went to an object allocated during this
// execution (watermark + k) while ref is a parameter of the function (it existed at entry). The result is equal to
// select(arr, ref); only the term is smaller - which keeps predicates over "the same" memory syntactically equal.
func (s *State) selectKnown(arr *Term, ref *Term) *Term {
	for arr.Kind == KApp && arr.Op == "store" && len(arr.Args) == 3 {
		i := arr.Args[1]
		distinct := false
		if s.facts != nil && s.facts["!distinct:"+i.String()+"|"+ref.String()] != nil {
			distinct = true
		}
		if !distinct && isAllocTerm(i) && ref.Kind == KVar && strings.HasPrefix(ref.Op, "in.") {
			distinct = true
		}
		if !distinct {
			break
		}
		arr = arr.Args[0]
	}
	return Select(arr, ref)
}

// isAllocTerm: watermark + positive literal (the reference of an object allocated during this execution)
func isAllocTerm(t *Term) bool {
	if t.Kind != KApp || t.Op != "+" || len(t.Args) != 2 {
		return false
	}
	k := t.Args[1]
	if k.Kind != KLit {
		return false
	}
	if n, ok := k.IntVal(); !ok || n.Sign() <= 0 {
		return false
	}
	b := t.Args[0]
	if b.Kind == KVar && strings.HasPrefix(b.Op, "alloc") {
		return true
	}
	return isAllocTerm(b)
}

func (s *State) infeasible() bool {
	for _, p := range s.pc {
		if p.IsFalse() {
			return true
		}
	}
	return false
}

// comp returns the current term of a heap component, creating its initial symbol on demand.
func (s *State) comp(name string, sort Sort) *Term {
	if t, ok := s.heap[name]; ok {
		if t.Sort != sort {
			panic(fmt.Sprintf("heap component %s used at sorts %s and %s", name, t.Sort, sort))
		}
		return t
	}
	if immutableComp(name) {
		t := Var("Himm!"+name, sort)
		s.heap[name] = t
		return t
	}
	ep := s.epoch
	for p, e := range s.hv {
		if e > ep && (name == p || strings.HasPrefix(name, p+".") || strings.HasPrefix(name, p+"#")) {
			ep = e
		}
	}
	t := Var(fmt.Sprintf("H%d!%s", ep, name), sort)
	s.heap[name] = t
	return t
}

var immutableComps = map[string]bool{}

func immutableComp(name string) bool {
	if len(immutableComps) == 0 {
		return false
	}
	if immutableComps[name] {
		return true
	}
	for p := range immutableComps {
		if strings.HasPrefix(name, p+".") || strings.HasPrefix(name, p+"#") {
			return true
		}
	}
	return false
}

func (s *State) havocAll() {
	s.bumpTop()
	s.epoch = freshEpoch()
	hvTopMu.Lock()
	epochTop[s.epoch] = s.top
	hvTopMu.Unlock()
	s.heap = map[string]*Term{}
	s.hv = nil
}

var epochCounter int

func freshEpoch() int { epochCounter++; return epochCounter }

type Frame struct {
	callCount map[string]int // per at-clause: how many matching calls were executed on this path
	fn       *ssa.Function
	regs     map[ssa.Value]*Val
	cellOf   map[*ssa.Alloc]int
	spec     *FuncSpec
	cs       *ContractSet
	entry    *State
	params   map[string]*Val
	results  []*Val
	te       TypeEnv
	depth    int
	ret      func(fr *Frame, st *State, res *Val) // continuation for inlined calls
	loops    *loopInfo
	defers   []*ssa.Defer
	parent   *Frame
	free     map[*ssa.FreeVar]*Val
	snaps    map[string]*State // labelled snapshots ("at L before call f")
	phiFresh map[*ssa.Phi]*Val // header phis of cut loops: arbitrary value of an arbitrary iteration
	retPos   token.Pos
	retBlock *ssa.BasicBlock
}

type Oblig struct {
	Func    string
	Clause  string
	Props   []string
	Sub     string
	Hyps    []*Term
	Goal    *Term
	Trivial bool
	Res     *SolverResult
	Cover   bool
	Group   string    // obligations with the same group share their hypotheses (one path) and are first tried as one query
	Env     *SpecEnv  // environment in which replay expressions are evaluated
	Spec    *FuncSpec // contract the obligation belongs to
}

func (o *Oblig) Name() string { return o.Func + ":" + o.Clause }

type Run struct {
	labels      map[string]bool // at-labels reached on some path
	v           *Verifier
	fn          *ssa.Function
	fname       string
	spec        *FuncSpec
	obligs      []*Oblig
	paths       int
	maxPaths    int
	steps       int
	unsupported []string
	assumptions map[string]bool
	trustedUsed map[string]bool
	safe        bool
	overflow    bool
	cmode       bool // extracted C code: exact wrap-around conversions, type ranges of loaded and returned integers
	retPaths    int
	caseTag     string // current case split, for messages
	safeKinds   map[string]bool // non-empty: only these kinds (assert, bounds, slice, nil, nilrecv, div, ...) are obligations
	pendingFree []*Val // bindings of the closure whose contract is being applied
	siteNames   bool   // sweep mode: one clause per source site (named by its source line) instead of one per kind
}

type unsupportedErr struct{ msg string }

func (r *Run) unsup(format string, args ...any) {
	panic(unsupportedErr{fmt.Sprintf(format, args...)})
}

func (r *Run) note(a string) { r.assumptions[a] = true }

func (r *Run) labelReached(l string) {
	if r.labels == nil {
		r.labels = map[string]bool{}
	}
	r.labels[l] = true
}

func (r *Run) oblige(st *State, clause string, props []string, sub string, goal *Term) {
	if r.caseTag != "" {
		sub = strings.TrimSpace(sub + " " + r.caseTag)
	}
	goal = expandSmallRanges(goal)
	o := &Oblig{Func: r.fname, Clause: clause, Props: props, Sub: sub, Goal: goal}
	if goal.IsTrue() || st.infeasible() {
		o.Trivial = true
	} else {
		o.Hyps = append([]*Term(nil), st.pc...)
	}
	r.obligs = append(r.obligs, o)
}

// ---------- addresses, loads and stores ----------

func joinPath(prefix, leaf string) string {
	if prefix == "" {
		return leaf
	}
	if leaf == "" {
		return prefix
	}
	if leaf[0] == '#' {
		return prefix + leaf
	}
	return prefix + "." + leaf
}

func addrTerm(a *Addr) *Term {
	switch a.Kind {
	case ABox, AArr:
		return a.Ref
	case AField:
		if a.Path == "" {
			return a.Ref
		}
		return UF("fieldptr!"+a.Base+"|"+a.Path, SInt, a.Ref)
	case AElem:
		return UF("elemptr!"+a.Base+"|"+a.Path, SInt, a.Ref, a.Idx)
	case ALocal:
		return UF(fmt.Sprintf("cellptr!%d!%s", a.Cell, a.Path), SInt)
	case AGlobal:
		return UF("globalptr!"+a.Base+"."+a.Path, SInt)
	}
	panic("addrTerm")
}

func ptrVal(t types.Type, a *Addr) *Val {
	return &Val{T: t, L: []*Term{addrTerm(a)}, A: a}
}

// addrOf turns a pointer value into an address.
func (r *Run) addrOf(v *Val, te TypeEnv) *Addr {
	if v.A != nil {
		return v.A
	}
	el := derefType(te.apply(v.T))
	if el == nil {
		r.unsup("addrOf: not a pointer type %s", v.T)
	}
	p := v.L[0]
	if p.Kind == KApp && strings.HasPrefix(p.Op, "fieldptr!") {
		rest := strings.TrimPrefix(p.Op, "fieldptr!")
		i := strings.Index(rest, "|")
		return &Addr{Kind: AField, Ref: p.Args[0], Base: rest[:i], Path: rest[i+1:], T: el}
	}
	if p.Kind == KApp && strings.HasPrefix(p.Op, "elemptr!") {
		rest := strings.TrimPrefix(p.Op, "elemptr!")
		i := strings.Index(rest, "|")
		return &Addr{Kind: AElem, Ref: p.Args[0], Idx: p.Args[1], Base: rest[:i], Path: rest[i+1:], T: el}
	}
	if _, ok := types.Unalias(te.apply(el)).Underlying().(*types.Struct); ok {
		return &Addr{Kind: AField, Ref: p, Base: typeName(te.apply(el)), T: el}
	}
	return &Addr{Kind: ABox, Ref: p, Base: "*" + typeName(te.apply(el)), T: el}
}

func (r *Run) load(st *State, a *Addr, t types.Type, te TypeEnv) *Val {
	ls := layoutTE(t, te)
	v := &Val{T: t}
	switch a.Kind {
	case ALocal:
		c := st.cells[a.Cell]
		if c == nil {
			r.unsup("load from unknown cell %d", a.Cell)
		}
		off := 0
		if a.Path != "" {
			fmt.Sscanf(a.Path, "%d", &off)
		}
		v.L = append(v.L, c.L[off:off+len(ls)]...)
	case AField, ABox:
		for _, l := range ls {
			name := joinPath(joinPath(a.Base, a.Path), l.Path)
			noteRefComp(name, l, te)
			v.L = append(v.L, st.selectKnown(st.comp(name, ArrSort(SInt, l.Sort)), a.Ref))
		}
	case AElem:
		for _, l := range ls {
			name := joinPath(joinPath(a.Base, a.Path), l.Path)
			noteRefComp(name, l, te)
			v.L = append(v.L, Select(st.selectKnown(st.comp(name, ArrSort(SInt, ArrSort(SInt, l.Sort))), a.Ref), a.Idx))
		}
	case AGlobal:
		for _, l := range ls {
			name := "g:" + joinPath(joinPath(a.Base, a.Path), l.Path)
			v.L = append(v.L, st.comp(name, l.Sort))
		}
	}
	return v
}

// markEscaped records that the references contained in v (and, for closures, in their bindings)
// are reachable from the heap.
func (st *State) markEscaped(v *Val, depth int) {
	if v == nil || depth > 3 {
		return
	}
	for _, l := range v.L {
		if l.Sort != SInt || l.Kind == KLit {
			continue
		}
		if st.escaped == nil {
			st.escaped = map[string]bool{}
		}
		st.escaped[l.String()] = true
		if ci, ok := st.closure[l.String()]; ok {
			for i, b := range ci.bindings {
				if i < len(ci.fn.FreeVars) && !closureWrites(ci.fn, ci.fn.FreeVars[i], 0) {
					continue // captured but never assigned by the closure: unknown code cannot change it through the closure
				}
				st.markEscaped(b, depth+1)
			}
		}
	}
}

// closureWrites: may fn (or a closure nested in it) store to the captured variable fv, or let its address escape?
func closureWrites(fn *ssa.Function, fv *ssa.FreeVar, depth int) bool {
	if depth > 4 {
		return true
	}
	for _, b := range fn.Blocks {
		for _, in := range b.Instrs {
			switch x := in.(type) {
			case *ssa.Store:
				if x.Addr == ssa.Value(fv) {
					return true
				}
				if x.Val == ssa.Value(fv) {
					return true // the address itself is stored somewhere
				}
			case *ssa.MakeClosure:
				inner := x.Fn.(*ssa.Function)
				for i, bnd := range x.Bindings {
					if bnd == ssa.Value(fv) && i < len(inner.FreeVars) && closureWrites(inner, inner.FreeVars[i], depth+1) {
						return true
					}
				}
			case ssa.CallInstruction:
				for _, a := range x.Common().Args {
					if a == ssa.Value(fv) {
						return true // address passed on
					}
				}
			case *ssa.FieldAddr:
				if x.X == ssa.Value(fv) {
					// &captured.field: a store through it writes the captured struct variable
					for _, ref := range *x.Referrers() {
						if st, ok := ref.(*ssa.Store); ok && st.Addr == ssa.Value(x) {
							return true
						}
					}
				}
			case *ssa.MakeInterface:
				if x.X == ssa.Value(fv) {
					return true
				}
			}
		}
	}
	return false
}

func (r *Run) store(st *State, a *Addr, val *Val, te TypeEnv) {
	if a.Kind != ALocal && len(st.boxes) > 0 {
		st.markEscaped(val, 0)
	}
	ls := layoutTE(val.T, te)
	if len(ls) != len(val.L) {
		// value typed differently from its leaves (e.g. untyped nil)
		ls = layoutTE(a.T, te)
	}
	if len(ls) != len(val.L) {
		r.unsup("store: layout mismatch for %s (%d leaves vs %d)", val.T, len(ls), len(val.L))
	}
	switch a.Kind {
	case ALocal:
		c := st.cells[a.Cell]
		off := 0
		if a.Path != "" {
			fmt.Sscanf(a.Path, "%d", &off)
		}
		n := &Val{T: c.T, L: append([]*Term(nil), c.L...)}
		copy(n.L[off:off+len(val.L)], val.L)
		if off == 0 && len(val.L) == len(c.L) {
			n.A = val.A
		}
		st.cells[a.Cell] = n
	case AField, ABox:
		for i, l := range ls {
			name := joinPath(joinPath(a.Base, a.Path), l.Path)
			h := st.comp(name, ArrSort(SInt, l.Sort))
			st.heap[name] = Store(h, a.Ref, val.L[i])
		}
	case AElem:
		for i, l := range ls {
			name := joinPath(joinPath(a.Base, a.Path), l.Path)
			h := st.comp(name, ArrSort(SInt, ArrSort(SInt, l.Sort)))
			st.heap[name] = Store(h, a.Ref, Store(Select(h, a.Ref), a.Idx, val.L[i]))
		}
	case AGlobal:
		for i, l := range ls {
			name := "g:" + joinPath(joinPath(a.Base, a.Path), l.Path)
			_ = st.comp(name, l.Sort)
			st.heap[name] = val.L[i]
		}
	}
}

func (r *Run) fieldAddr(a *Addr, st *types.Struct, i int, te TypeEnv) *Addr {
	f := st.Field(i)
	n := *a
	n.T = f.Type()
	if a.Kind == ALocal {
		off := 0
		if a.Path != "" {
			fmt.Sscanf(a.Path, "%d", &off)
		}
		lo, _ := fieldRange(st, i, te)
		n.Path = fmt.Sprintf("%d", off+lo)
	} else {
		n.Path = joinPath(a.Path, f.Name())
	}
	return &n
}

// heap components whose cells hold references (pointers, maps, backing arrays)
var refComps = map[string]bool{}

func noteRefComp(name string, l Leaf, te TypeEnv) {
	if l.Sort != SInt || l.T == nil {
		return
	}
	switch types.Unalias(te.apply(l.T)).Underlying().(type) {
	case *types.Pointer, *types.Map:
		refComps[name] = true
	case *types.Slice:
		if strings.HasSuffix(l.Path, "#arr") {
			refComps[name] = true
		}
	}
}

// newObject allocates a fresh heap object of type t (zero-initialised) and returns its address.
func (r *Run) newObject(st *State, t types.Type, te TypeEnv, hint string) *Addr {
	ref := st.freshRef()
	var a *Addr
	tt := te.apply(t)
	if _, ok := types.Unalias(tt).Underlying().(*types.Struct); ok {
		a = &Addr{Kind: AField, Ref: ref, Base: typeName(tt), T: t}
	} else {
		a = &Addr{Kind: ABox, Ref: ref, Base: "*" + typeName(tt), T: t}
	}
	r.store(st, a, zeroVal(t, te), te)
	return a
}

// newArray allocates a fresh backing array whose cells hold the zero value of el.
func (r *Run) newArray(st *State, el types.Type, te TypeEnv) *Term {
	ref := st.freshRef()
	base := "[]" + typeName(te.apply(el))
	for _, l := range layoutTE(el, te) {
		name := joinPath(base, l.Path)
		h := st.comp(name, ArrSort(SInt, ArrSort(SInt, l.Sort)))
		st.heap[name] = Store(h, ref, zeroTerm(ArrSort(SInt, l.Sort)))
	}
	return ref
}

// ---------- loops ----------

type loopInfo struct {
	headers  []*ssa.BasicBlock // in source order
	body     map[*ssa.BasicBlock]map[*ssa.BasicBlock]bool
	ordinal  map[*ssa.BasicBlock]int
	modCells map[*ssa.BasicBlock][]*ssa.Alloc
}

func analyseLoops(fn *ssa.Function) *loopInfo {
	li := &loopInfo{body: map[*ssa.BasicBlock]map[*ssa.BasicBlock]bool{}, ordinal: map[*ssa.BasicBlock]int{}, modCells: map[*ssa.BasicBlock][]*ssa.Alloc{}}
	for _, b := range fn.Blocks {
		for _, s := range b.Succs {
			if s.Dominates(b) { // back edge b -> s
				body := li.body[s]
				if body == nil {
					body = map[*ssa.BasicBlock]bool{s: true}
					li.body[s] = body
					li.headers = append(li.headers, s)
				}
				// collect natural loop
				var stack []*ssa.BasicBlock
				if !body[b] {
					body[b] = true
					stack = append(stack, b)
				}
				for len(stack) > 0 {
					n := stack[len(stack)-1]
					stack = stack[:len(stack)-1]
					for _, p := range n.Preds {
						if !body[p] {
							body[p] = true
							stack = append(stack, p)
						}
					}
				}
			}
		}
	}
	// source order: by position of the first instruction with a position in the header, fall back to index
	pos := func(b *ssa.BasicBlock) token.Pos {
		best := token.NoPos
		for bb := range li.body[b] {
			for _, in := range bb.Instrs {
				if p := in.Pos(); p.IsValid() && (best == token.NoPos || p < best) {
					best = p
				}
			}
		}
		return best
	}
	sort.SliceStable(li.headers, func(i, j int) bool {
		pi, pj := pos(li.headers[i]), pos(li.headers[j])
		if pi != pj {
			return pi < pj
		}
		return li.headers[i].Index < li.headers[j].Index
	})
	live := map[*ssa.Alloc]map[*ssa.BasicBlock]bool{}
	for i, h := range li.headers {
		li.ordinal[h] = i
		seen := map[*ssa.Alloc]bool{}
		for b := range li.body[h] {
			for _, in := range b.Instrs {
				if s, ok := in.(*ssa.Store); ok {
					if a, ok := rootAlloc(s.Addr); ok && !seen[a] {
						seen[a] = true
						// a variable that is dead at the loop head (always overwritten before it is read again)
						// keeps whatever value it has: nothing can observe it
						if _, done := live[a]; !done {
							live[a] = liveIn(fn, a)
						}
						if os.Getenv("VGO_DEBUG_LIVE") != "" {
							fmt.Fprintln(os.Stderr, "LIVE", fn.Name(), a.Comment, h.Index, live[a][h])
						}
						if !live[a][h] {
							continue
						}
						li.modCells[h] = append(li.modCells[h], a)
					}
				}
			}
		}
	}
	return li
}

// liveIn computes, for a local variable, the blocks at whose entry its current value may still be read.
// Any use other than a whole-variable store counts as a read (conservative).
func liveIn(fn *ssa.Function, a *ssa.Alloc) map[*ssa.BasicBlock]bool {
	use := map[*ssa.BasicBlock]bool{}
	def := map[*ssa.BasicBlock]bool{}
	for _, b := range fn.Blocks {
		decided := false
		for _, in := range b.Instrs {
			if decided {
				break
			}
			if st, ok := in.(*ssa.Store); ok && st.Addr == a {
				if st.Val == ssa.Value(a) {
					use[b] = true
				} else {
					def[b] = true
				}
				decided = true
				continue
			}
			var ops []*ssa.Value
			for _, op := range in.Operands(ops) {
				if op != nil && *op == ssa.Value(a) {
					if os.Getenv("VGO_DEBUG_LIVE") != "" && a.Comment == "arrayidx" {
						fmt.Fprintf(os.Stderr, "  USE %s b%d %T %s\n", fn.Name(), b.Index, in, in.String())
					}
					use[b] = true
					decided = true
					break
				}
			}
		}
	}
	// closures capturing the variable may read it at any time
	if refs := a.Referrers(); refs != nil {
		for _, rf := range *refs {
			if _, ok := rf.(*ssa.MakeClosure); ok {
				all := map[*ssa.BasicBlock]bool{}
				for _, b := range fn.Blocks {
					all[b] = true
				}
				return all
			}
		}
	}
	if os.Getenv("VGO_DEBUG_LIVE") != "" && (a.Comment == "arrayidx") {
		for _, b := range fn.Blocks {
			fmt.Fprintln(os.Stderr, "  UD", fn.Name(), a.Comment, b.Index, use[b], def[b])
		}
	}
	live := map[*ssa.BasicBlock]bool{}
	for changed := true; changed; {
		changed = false
		for i := len(fn.Blocks) - 1; i >= 0; i-- {
			b := fn.Blocks[i]
			l := use[b]
			if !l && !def[b] {
				for _, s := range b.Succs {
					if live[s] {
						l = true
					}
				}
			}
			if l && !live[b] {
				live[b] = true
				changed = true
			}
		}
	}
	return live
}

func rootAlloc(v ssa.Value) (*ssa.Alloc, bool) {
	for {
		switch x := v.(type) {
		case *ssa.Alloc:
			return x, !x.Heap
		case *ssa.FieldAddr:
			if _, isPtrToLocal := x.X.(*ssa.Alloc); isPtrToLocal {
				v = x.X
				continue
			}
			if fa, ok := x.X.(*ssa.FieldAddr); ok {
				v = fa
				continue
			}
			return nil, false
		default:
			return nil, false
		}
	}
}

// ---------- the interpreter ----------

func (r *Run) valueOf(st *State, fr *Frame, v ssa.Value) *Val {
	switch x := v.(type) {
	case *ssa.Const:
		return r.constVal(x, fr.te)
	case *ssa.Function:
		t := UF("fn!"+x.String(), SInt)
		fnByTerm[t.String()] = x
		st.assume(Lt(t, IntLit(0))) // function constants are non-nil and distinct from every allocated reference
		return &Val{T: x.Type(), L: []*Term{t}}
	case *ssa.Global:
		a := &Addr{Kind: AGlobal, Base: x.Pkg.Pkg.Name() + "." + x.Name(), T: derefType(x.Type())}
		return ptrVal(x.Type(), a)
	case *ssa.Builtin:
		return &Val{T: x.Type(), L: []*Term{UF("builtin!"+x.Name(), SInt)}}
	case *ssa.FreeVar:
		if val, ok := fr.free[x]; ok {
			return val
		}
		r.unsup("free variable %s without binding", x.Name())
	case *ssa.Parameter:
		if val, ok := fr.regs[x]; ok {
			return val
		}
	}
	if val, ok := fr.regs[v]; ok {
		return val
	}
	r.unsup("value %s (%T) not evaluated", v.Name(), v)
	return nil
}

func (r *Run) constVal(c *ssa.Const, te TypeEnv) *Val {
	t := c.Type()
	if c.Value == nil {
		return zeroVal(t, te)
	}
	ls := layoutTE(t, te)
	if len(ls) != 1 {
		r.unsup("constant of composite type %s", t)
	}
	switch ls[0].Sort {
	case SInt:
		if c.Value.Kind() == constant.Int {
			if i64, ok := constant.Int64Val(c.Value); ok {
				return &Val{T: t, L: []*Term{IntLit(i64)}}
			}
			u, _ := constant.Uint64Val(c.Value)
			return &Val{T: t, L: []*Term{IntBig(newBigU(u))}}
		}
		if c.Value.Kind() == constant.Float {
			// integer-valued float constant used at integer type
			f, _ := constant.Float64Val(c.Value)
			return &Val{T: t, L: []*Term{IntLit(int64(f))}}
		}
	case SBool:
		return &Val{T: t, L: []*Term{BoolLit(constant.BoolVal(c.Value))}}
	case SStr:
		return &Val{T: t, L: []*Term{strLit(constant.StringVal(c.Value))}}
	case SReal:
		return &Val{T: t, L: []*Term{UF("realconst!"+c.Value.ExactString(), SReal)}}
	}
	r.unsup("constant %s of type %s", c.Value, t)
	return nil
}

func (r *Run) bindResult(fr *Frame, in ssa.Value, v *Val) {
	fr.regs[in] = v
}

// execFrom runs block b from instruction index idx.
func (r *Run) execBlock(st *State, fr *Frame, b *ssa.BasicBlock, prev *ssa.BasicBlock) {
	if st.infeasible() {
		return
	}
	r.steps++
	if r.steps > 400000 {
		r.unsup("step budget exceeded")
	}
	// loop header?
	if fr.loops != nil {
		if _, isHdr := fr.loops.body[b]; isHdr {
			if !r.enterLoopHeader(st, fr, b, prev) {
				return
			}
		}
	}
	r.execInstrs(st, fr, b, 0, prev)
}

func (r *Run) loopClauses(fr *Frame, k int, kind string) []*Clause {
	if fr.spec == nil {
		return nil
	}
	var out []*Clause
	for _, c := range fr.spec.Clauses {
		if c.Kind == kind && c.Loop == k {
			out = append(out, c)
		}
	}
	return out
}

func (r *Run) specEnv(st *State, fr *Frame, mode string) *SpecEnv {
	return &SpecEnv{run: r, st: st, old: fr.entry, fr: fr, cs: fr.cs, te: fr.te, mode: mode, vars: map[string]*Val{}}
}

// enterLoopHeader implements the invariant cut. Returns false if the path ends here.
func (r *Run) enterLoopHeader(st *State, fr *Frame, h *ssa.BasicBlock, prev *ssa.BasicBlock) bool {
	k := fr.loops.ordinal[h]
	invs := r.loopClauses(fr, k, "invariant")
	decs := r.loopClauses(fr, k, "loopdecreases")
	top := fr.depth == 0
	// header phis (e.g. the hidden index of a range loop): their value on the edge we arrive by
	phiIn := map[string]*Val{}
	var phis []*ssa.Phi
	for _, in := range h.Instrs {
		phi, ok := in.(*ssa.Phi)
		if !ok {
			break
		}
		phis = append(phis, phi)
		for pi, p := range h.Preds {
			if p == prev {
				phiIn[phi.Comment] = r.valueOf(st, fr, phi.Edges[pi])
				phiIn[phi.Name()] = phiIn[phi.Comment]
				phiIn[fmt.Sprintf("%s%d", phi.Comment, k)] = phiIn[phi.Comment]
			}
		}
	}
	if ol, open := st.open[h]; open {
		// arrived through a back edge: invariant preservation and variant decrease
		if top {
			env := r.specEnv(st, fr, "inv").with(phiIn)
			env.loopHdr = h
			for _, c := range invs {
				g := env.evalBool(c.Expr)
				r.oblige(st, fmt.Sprintf("loop%d.inv%d.preserve", k, c.Ord), c.Props, "", g)
			}
			for i, c := range decs {
				now := env.evalInt(c.Expr)
				v0 := ol.variant[i]
				r.oblige(st, fmt.Sprintf("loop%d.decreases", k), c.Props, "", And(Ge(v0, IntLit(0)), Lt(now, v0)))
			}
			// "loop K end requires E": E holds whenever an iteration runs to its end
			for _, c := range r.loopClauses(fr, k, "loopend") {
				r.oblige(st, fmt.Sprintf("loop%d.end%d", k, c.Ord), c.Props, "", env.evalBool(c.Expr))
			}
			// "loop K each F when E": an iteration in which E holds (at its end) has called F
			for _, c := range r.loopClauses(fr, k, "loopeach") {
				called := st.calls[c.Text] > ol.calls[c.Text]
				r.oblige(st, fmt.Sprintf("loop%d.each%d(%s)", k, c.Ord, c.Text), c.Props, "", Implies(env.evalBool(c.Expr), BoolLit(called)))
			}
		}
		return false
	}
	// first arrival: establish, havoc, assume
	if top {
		env := r.specEnv(st, fr, "inv").with(phiIn)
		env.loopHdr = h
		for _, c := range invs {
			g := env.evalBool(c.Expr)
			r.oblige(st, fmt.Sprintf("loop%d.inv%d.entry", k, c.Ord), c.Props, "", g)
		}
	}
	// earlier iterations may have allocated: values of an arbitrary iteration may refer to those objects
	st.bumpTop()
	// the header's phis take the value of an arbitrary iteration
	phiNow := map[string]*Val{}
	for _, phi := range phis {
		nv := freshVal(phi.Type(), "loop"+fmt.Sprint(k)+"."+phi.Name(), fr.te)
		if fr.phiFresh == nil {
			fr.phiFresh = map[*ssa.Phi]*Val{}
		}
		fr.phiFresh[phi] = nv
		r.assumeWF(st, nv, fr.te)
		phiNow[phi.Comment] = nv
		phiNow[phi.Name()] = nv
		phiNow[fmt.Sprintf("%s%d", phi.Comment, k)] = nv
		// the hidden index of a range loop starts at -1 and only grows
		if phi.Comment == "rangeindex" && len(nv.L) == 1 && nv.L[0].Sort == SInt {
			st.assume(Ge(nv.L[0], IntLit(-1)))
		}
	}
	// havoc cells assigned in the loop
	for _, a := range fr.loops.modCells[h] {
		id, ok := fr.cellOf[a]
		if !ok {
			continue // allocated inside the loop body
		}
		old := st.cells[id]
		if old == nil {
			continue // the cell belongs to another path
		}
		nv := freshVal(old.T, "loop"+fmt.Sprint(k)+"."+a.Comment, fr.te)
		st.cells[id] = nv
		r.assumeWF(st, nv, fr.te)
		// the hidden index of a range loop starts at -1 and only grows
		if a.Comment == "rangeindex" && len(nv.L) == 1 && nv.L[0].Sort == SInt {
			st.assume(Ge(nv.L[0], IntLit(-1)))
		}
	}
	// havoc heap written in the loop
	r.havocLoopHeap(st, fr, h)
	env := r.specEnv(st, fr, "inv").with(phiNow)
	env.loopHdr = h
	for _, c := range invs {
		st.assume(env.evalBool(c.Expr))
	}
	ol := &openLoop{calls: map[string]int{}}
	for k2, v2 := range st.calls {
		ol.calls[k2] = v2
	}
	for _, c := range decs {
		ol.variant = append(ol.variant, env.evalInt(c.Expr))
	}
	st.open[h] = ol
	return true
}

// havocLoopHeap havocs every heap component that the loop body may write.
func (r *Run) havocLoopHeap(st *State, fr *Frame, h *ssa.BasicBlock) {
	comps, all := r.writtenComps(fr, fr.loops.body[h], 0)
	// explicit loop modifies clauses refine "all"
	if fr.spec != nil {
		k := fr.loops.ordinal[h]
		for _, c := range fr.spec.Clauses {
			if c.Kind == "loopmodifies" && c.Loop == k {
				all = false
				comps = map[string]bool{}
				for _, m := range strings.Split(c.Text, ",") {
					m = strings.TrimSpace(m)
					if m != "" && m != "nothing" {
						comps[m] = true
					}
				}
				r.note(fmt.Sprintf("loop %d of %s: heap frame given by 'loop modifies' clause (unchecked)", k, r.fname))
			}
		}
	}
	if all {
		// keep the frame's own escaping locals that the loop body neither stores to nor hands out
		touched := map[*ssa.Alloc]bool{}
		var mark func(v ssa.Value)
		mark = func(v ssa.Value) {
			switch x := v.(type) {
			case *ssa.Alloc:
				touched[x] = true
			case *ssa.MakeClosure:
				for _, b := range x.Bindings {
					mark(b)
				}
			}
		}
		for b := range fr.loops.body[h] {
			for _, in := range b.Instrs {
				switch x := in.(type) {
				case *ssa.Store:
					mark(x.Addr)
					mark(x.Val)
				case ssa.CallInstruction:
					for _, a := range x.Common().Args {
						mark(a)
					}
					mark(x.Common().Value)
				case *ssa.MakeClosure:
					mark(x)
				case *ssa.MakeInterface:
					mark(x.X)
				}
			}
		}
		// a closure created elsewhere in the function may be called (dynamically) inside the loop
		dyn := false
		for b := range fr.loops.body[h] {
			for _, in := range b.Instrs {
				if c, ok := in.(ssa.CallInstruction); ok && c.Common().StaticCallee() == nil {
					if _, isBuiltin := c.Common().Value.(*ssa.Builtin); !isBuiltin {
						dyn = true
					}
				}
			}
		}
		if dyn {
			for _, b := range fr.fn.Blocks {
				for _, in := range b.Instrs {
					if mc, ok := in.(*ssa.MakeClosure); ok {
						mark(mc)
					}
				}
			}
		}
		type saved struct {
			b *localBox
			v *Val
		}
		var keep []saved
		for _, b := range st.boxes {
			if b.alloc != nil && !touched[b.alloc] && b.alloc.Parent() == fr.fn && !st.escaped[b.addr.Ref.String()] {
				keep = append(keep, saved{b, r.load(st, b.addr, b.t, fr.te)})
			}
		}
		st.havocAll()
		for _, k := range keep {
			r.store(st, k.b.addr, k.v, fr.te)
		}
		return
	}
	for c := range comps {
		r.havocPrefix(st, c)
	}
}

// havocPrefix havocs all components whose name is c or extends c.
func (r *Run) havocPrefix(st *State, c string) {
	if immutableComp(c) {
		return
	}
	for name, t := range st.heap {
		if name == c || strings.HasPrefix(name, c+".") || strings.HasPrefix(name, c+"#") {
			if immutableComp(name) {
				continue
			}
			hvn := freshName("Hv!" + name)
			st.heap[name] = Var(hvn, t.Sort)
			hvTopMu.Lock()
			hvTop[hvn] = hvInfo{comp: name, top: st.top}
			hvTopMu.Unlock()
		}
	}
	// components not read so far get a fresh epoch symbol on their first read
	if st.hv == nil {
		st.hv = map[string]int{}
	}
	st.hv[c] = freshEpoch()
	hvTopMu.Lock()
	epochTop[st.hv[c]] = st.top
	hvTopMu.Unlock()
}

// allocation watermark at the time a havocked heap symbol was introduced (for the heap-closure axioms)
type hvInfo struct {
	comp string
	top  *Term
}

var (
	hvTop    = map[string]hvInfo{}
	epochTop = map[int]*Term{}
	hvTopMu  sync.Mutex
)

// writtenComps statically over-approximates the heap components written by a set of blocks.
func (r *Run) writtenComps(fr *Frame, blocks map[*ssa.BasicBlock]bool, depth int) (map[string]bool, bool) {
	comps := map[string]bool{}
	for b := range blocks {
		for _, in := range b.Instrs {
			switch x := in.(type) {
			case *ssa.Store:
				if _, local := rootAlloc(x.Addr); local {
					continue
				}
				c, ok := staticComp(x.Addr, fr.te)
				if !ok {
					return nil, true
				}
				comps[c] = true
			case *ssa.MapUpdate:
				comps["map:"+typeName(x.Map.Type())] = true
			case ssa.CallInstruction:
				cc, all := r.calleeWrites(fr, x, depth)
				if all {
					return nil, true
				}
				for c := range cc {
					comps[c] = true
				}
			}
		}
	}
	return comps, false
}

func staticComp(addr ssa.Value, te TypeEnv) (string, bool) {
	switch x := addr.(type) {
	case *ssa.FieldAddr:
		st := structOf(x.X.Type())
		if st == nil {
			return "", false
		}
		f := st.Field(x.Field).Name()
		if inner, ok := x.X.(*ssa.FieldAddr); ok {
			p, ok := staticComp(inner, te)
			if !ok {
				return "", false
			}
			return joinPath(p, f), true
		}
		if inner, ok := x.X.(*ssa.IndexAddr); ok {
			p, ok := staticComp(inner, te)
			if !ok {
				return "", false
			}
			return joinPath(p, f), true
		}
		pt := derefType(te.apply(x.X.Type()))
		if pt == nil {
			return "", false
		}
		return joinPath(typeName(te.apply(pt)), f), true
	case *ssa.IndexAddr:
		if sl, ok := types.Unalias(x.X.Type()).Underlying().(*types.Slice); ok {
			return "[]" + typeName(te.apply(sl.Elem())), true
		}
		if pt, ok := types.Unalias(x.X.Type()).Underlying().(*types.Pointer); ok {
			if at, ok := types.Unalias(pt.Elem()).Underlying().(*types.Array); ok {
				return "[]" + typeName(te.apply(at.Elem())), true
			}
		}
		return "", false
	case *ssa.Alloc:
		if x.Heap {
			el := derefType(x.Type())
			if _, ok := types.Unalias(el).Underlying().(*types.Struct); ok {
				return typeName(te.apply(el)), true
			}
			return "*" + typeName(te.apply(el)), true
		}
		return "", false
	case *ssa.UnOp, *ssa.Parameter, *ssa.Call, *ssa.Extract, *ssa.Phi, *ssa.FreeVar:
		el := derefType(te.apply(x.Type()))
		if el == nil {
			return "", false
		}
		if _, ok := types.Unalias(te.apply(el)).Underlying().(*types.Struct); ok {
			return typeName(te.apply(el)), true
		}
		return "*" + typeName(te.apply(el)), true
	}
	return "", false
}

func (r *Run) calleeWrites(fr *Frame, call ssa.CallInstruction, depth int) (map[string]bool, bool) {
	com := call.Common()
	if b, ok := com.Value.(*ssa.Builtin); ok {
		switch b.Name() {
		case "append":
			sl := types.Unalias(com.Args[0].Type()).Underlying().(*types.Slice)
			return map[string]bool{"[]" + typeName(fr.te.apply(sl.Elem())): true}, false
		case "copy":
			if sl, ok := types.Unalias(com.Args[0].Type()).Underlying().(*types.Slice); ok {
				return map[string]bool{"[]" + typeName(fr.te.apply(sl.Elem())): true}, false
			}
			return nil, true
		case "delete", "clear":
			if _, isMap := types.Unalias(com.Args[0].Type()).Underlying().(*types.Map); !isMap {
				return nil, true
			}
			return map[string]bool{"map:" + typeName(com.Args[0].Type()): true}, false
		default:
			return nil, false
		}
	}
	callee := com.StaticCallee()
	if callee == nil {
		if com.IsInvoke() {
			if spec := r.v.methodSpec(com); spec != nil {
				return r.specWrites(spec, nil, com.Signature(), fr.te)
			}
			return nil, true
		}
		if r.v.isPureFuncType(com.Value.Type()) {
			return nil, false
		}
		if r.isPureField(fr, com.Value) {
			return nil, false
		}
		return nil, true
	}
	spec, _ := r.v.specFor(callee)
	if spec != nil && !spec.Has("inline") {
		return r.specWrites(spec, callee, callee.Signature, fr.te)
	}
	if callee.Blocks == nil || depth > 3 {
		return nil, true
	}
	if callee.Name() == "ssa:deferstack" {
		return nil, false
	}
	blocks := map[*ssa.BasicBlock]bool{}
	for _, b := range callee.Blocks {
		blocks[b] = true
	}
	sub := &Frame{fn: callee, te: fr.te}
	return r.writtenComps(sub, blocks, depth+1)
}

func (r *Run) specWrites(spec *FuncSpec, callee *ssa.Function, sig *types.Signature, te TypeEnv) (map[string]bool, bool) {
	comps := map[string]bool{}
	// "set LHS := E" clauses are writes as well
	for _, c := range spec.ClausesOf("set") {
		lhs := c.Lhs
		if lhs == nil {
			return nil, true
		}
		switch lhs.Kind {
		case "ident":
			if strings.HasPrefix(lhs.Name, "$") {
				comps["g:"+lhs.Name] = true
				continue
			}
			return nil, true
		case "sel":
			if lhs.Args[0].Kind != "ident" || sig == nil {
				return nil, true
			}
			var ot types.Type
			name := lhs.Args[0].Name
			if callee != nil {
				for _, p := range callee.Params {
					if p.Name() == name {
						ot = p.Type()
					}
				}
			}
			for i := 0; ot == nil && i < sig.Params().Len(); i++ {
				if sig.Params().At(i).Name() == name {
					ot = sig.Params().At(i).Type()
				}
			}
			if ot == nil && sig.Results().Len() == 1 && (name == "result" || name == sig.Results().At(0).Name() || (len(spec.Returns) == 1 && spec.Returns[0] == name)) {
				ot = sig.Results().At(0).Type()
			}
			if ot == nil {
				return nil, true
			}
			pt := derefType(te.apply(ot))
			if pt == nil {
				return nil, true
			}
			comps[typeName(te.apply(pt))+"."+lhs.Name] = true
		default:
			return nil, true
		}
	}
	mc, all := r.specModifies(spec)
	if all {
		return nil, true
	}
	for c := range mc {
		comps[c] = true
	}
	return comps, false
}

func (r *Run) specModifies(spec *FuncSpec) (map[string]bool, bool) {
	comps := map[string]bool{}
	for _, c := range spec.Clauses {
		if c.Kind == "modifies" {
			for _, m := range strings.Split(c.Text, ",") {
				m = strings.TrimSpace(m)
				if m == "*" {
					return nil, true
				}
				if m != "" && m != "nothing" {
					comps[m] = true
				}
			}
		}
	}
	return comps, false
}

func (r *Run) isPureField(fr *Frame, v ssa.Value) bool {
	spec := fr.spec
	if spec == nil {
		return false
	}
	// v = *(&x.f): look for field name
	if u, ok := v.(*ssa.UnOp); ok && u.Op == token.MUL {
		if fa, ok := u.X.(*ssa.FieldAddr); ok {
			st := structOf(fa.X.Type())
			name := st.Field(fa.Field).Name()
			for _, p := range spec.PureFlds {
				if p == name || strings.HasSuffix(p, "."+name) {
					return true
				}
			}
		}
	}
	return false
}

func (r *Run) assumeWF(st *State, v *Val, te TypeEnv) {
	ls := layoutTE(v.T, te)
	if len(ls) != len(v.L) {
		return
	}
	if r.cmode {
		for i := range ls {
			if ls[i].Sort == SInt && ls[i].T != nil && v.L[i].Kind != KLit {
				if b, ok := types.Unalias(te.apply(ls[i].T)).Underlying().(*types.Basic); ok && b.Info()&types.IsInteger != 0 {
					if lo, hi := intRange(b); lo != nil {
						st.assume(And(Le(lo, v.L[i]), Le(v.L[i], hi)))
					}
				}
			}
		}
	}
	for i := 0; i < len(ls); i++ {
		if ls[i].Sort == SInt && ls[i].T != nil && v.L[i].Kind != KLit {
			switch types.Unalias(te.apply(ls[i].T)).Underlying().(type) {
			case *types.Pointer, *types.Map, *types.Chan:
				st.assume(And(Ge(v.L[i], IntLit(0)), Le(v.L[i], st.top)))
			case *types.Slice:
				if strings.HasSuffix(ls[i].Path, "#arr") {
					st.assume(And(Ge(v.L[i], IntLit(0)), Le(v.L[i], st.top)))
				}
			}
		}
	}
	for i := 0; i < len(ls); i++ {
		if strings.HasSuffix(ls[i].Path, "#arr") && i+3 < len(ls) {
			st.assume(And(Ge(v.L[i+1], IntLit(0)), Ge(v.L[i+2], IntLit(0)), Le(v.L[i+2], v.L[i+3]), Le(v.L[i+3], IntLit(1<<63-1))))
			i += 3
		}
	}
}

func (r *Run) execInstrs(st *State, fr *Frame, b *ssa.BasicBlock, idx int, prev *ssa.BasicBlock) {
	for i := idx; i < len(b.Instrs); i++ {
		if st.infeasible() {
			return
		}
		in := b.Instrs[i]
		switch x := in.(type) {
		case *ssa.Phi:
			if v, ok := fr.phiFresh[x]; ok {
				fr.regs[x] = v
				continue
			}
			for pi, p := range b.Preds {
				if p == prev {
					fr.regs[x] = r.valueOf(st, fr, x.Edges[pi])
					break
				}
			}
			if fr.regs[x] == nil {
				r.unsup("phi without matching predecessor")
			}
		case *ssa.If:
			c := st.decide(r.valueOf(st, fr, x.Cond).L[0])
			if c.IsTrue() {
				r.execBlock(st, fr, b.Succs[0], b)
				return
			}
			if c.IsFalse() {
				r.execBlock(st, fr, b.Succs[1], b)
				return
			}
			st2 := st.clone()
			fr2 := fr.fork()
			st.assume(c)
			r.execBlock(st, fr, b.Succs[0], b)
			st2.assume(Not(c))
			r.countPath()
			r.execBlock(st2, fr2, b.Succs[1], b)
			return
		case *ssa.Jump:
			r.execBlock(st, fr, b.Succs[0], b)
			return
		case *ssa.Return:
			var res *Val
			switch len(x.Results) {
			case 0:
				res = &Val{T: types.NewTuple()}
			case 1:
				res = r.valueOf(st, fr, x.Results[0])
			default:
				res = &Val{T: fr.fn.Signature.Results()}
				for _, rv := range x.Results {
					res.L = append(res.L, r.valueOf(st, fr, rv).L...)
				}
			}
			fr.retPos = x.Pos()
			fr.retBlock = b
			fr.ret(fr, st, res)
			return
		case *ssa.Panic:
			r.onPanic(st, fr, x)
			return
		default:
			cont := r.execInstr(st, fr, in, b, i, prev)
			if !cont {
				return
			}
		}
	}
}

func (r *Run) countPath() {
	r.paths++
	if r.paths > r.maxPaths {
		r.unsup("path budget exceeded (%d)", r.maxPaths)
	}
}

func (fr *Frame) fork() *Frame {
	n := *fr
	n.regs = make(map[ssa.Value]*Val, len(fr.regs))
	for k, v := range fr.regs {
		n.regs[k] = v
	}
	n.cellOf = make(map[*ssa.Alloc]int, len(fr.cellOf))
	for k, v := range fr.cellOf {
		n.cellOf[k] = v
	}
	n.defers = append([]*ssa.Defer(nil), fr.defers...)
	if fr.phiFresh != nil {
		n.phiFresh = make(map[*ssa.Phi]*Val, len(fr.phiFresh))
		for k, v := range fr.phiFresh {
			n.phiFresh[k] = v
		}
	}
	if fr.callCount != nil {
		n.callCount = make(map[string]int, len(fr.callCount))
		for k, v := range fr.callCount {
			n.callCount[k] = v
		}
	}
	if fr.snaps != nil {
		n.snaps = make(map[string]*State, len(fr.snaps))
		for k, v := range fr.snaps {
			n.snaps[k] = v
		}
	}
	if fr.parent != nil {
		n.parent = fr.parent.fork()
		// the continuation closes over the parent frame: rebuild lazily by the caller
	}
	return &n
}

func (r *Run) onPanic(st *State, fr *Frame, x *ssa.Panic) {
	top := fr
	for top.parent != nil {
		top = top.parent
	}
	spec := top.spec
	if spec == nil {
		return
	}
	if spec.Has("nopanic") || (spec.Has("safe") && strings.TrimSpace(spec.Flags["safe"]) == "") {
		var cond *Term = False
		for _, c := range spec.ClausesOf("panics_if") {
			env := r.specEnv(st, top, "post")
			cond = Or(cond, env.evalBool(c.Expr))
		}
		r.oblige(st, "nopanic", spec.Props, "explicit panic at "+r.v.pos(x.Pos()), cond)
		last := r.obligs[len(r.obligs)-1]
		last.Env = r.specEnv(st, top, "post")
		last.Spec = spec
	}
}

var cellCounter int

// function values without captured variables are plain constants; remember which function they denote
var fnByTerm = map[string]*ssa.Function{}

// execInstr executes a non-control instruction. Returns false if the path was continued elsewhere
// (inlined call) or ended.
func (r *Run) execInstr(st *State, fr *Frame, in ssa.Instruction, b *ssa.BasicBlock, idx int, prev *ssa.BasicBlock) bool {
	te := fr.te
	switch x := in.(type) {
	case *ssa.Alloc:
		el := derefType(x.Type())
		if at, isArr := types.Unalias(te.apply(el)).Underlying().(*types.Array); isArr {
			arr := r.newArray(st, at.Elem(), te)
			fr.regs[x] = ptrVal(x.Type(), &Addr{Kind: AArr, Ref: arr, Base: "[]" + typeName(te.apply(at.Elem())), T: el})
			break
		}
		if x.Heap {
			a := r.newObject(st, el, te, x.Comment)
			st.boxes = append(st.boxes, &localBox{addr: a, t: el, alloc: x})
			fr.regs[x] = ptrVal(x.Type(), a)
		} else {
			cellCounter++
			id := cellCounter
			st.cells[id] = zeroVal(el, te)
			fr.cellOf[x] = id
			fr.regs[x] = ptrVal(x.Type(), &Addr{Kind: ALocal, Cell: id, T: el})
		}
	case *ssa.Store:
		a := r.addrOf(r.valueOf(st, fr, x.Addr), te)
		r.checkAddr(st, fr, a, x.Pos())
		v := r.valueOf(st, fr, x.Val)
		v = r.coerce(v, a.T, te)
		r.store(st, a, v, te)
	case *ssa.UnOp:
		xv := r.valueOf(st, fr, x.X)
		switch x.Op {
		case token.MUL:
			a := r.addrOf(xv, te)
			r.checkAddr(st, fr, a, x.Pos())
			v := r.load(st, a, x.Type(), te)
			if v.A == nil && a.Kind == ALocal {
				if c := st.cells[a.Cell]; c != nil && c.A != nil && a.Path == "" {
					v.A = c.A
				}
			}
			r.assumeWF(st, v, te)
			fr.regs[x] = v
		case token.NOT:
			fr.regs[x] = &Val{T: x.Type(), L: []*Term{Not(xv.L[0])}}
		case token.SUB:
			if xv.L[0].Sort != SInt {
				fr.regs[x] = &Val{T: x.Type(), L: []*Term{UF("fneg", SReal, xv.L[0])}}
			} else {
				fr.regs[x] = &Val{T: x.Type(), L: []*Term{Neg(xv.L[0])}}
			}
		case token.XOR:
			fr.regs[x] = &Val{T: x.Type(), L: []*Term{UF("bitnot", SInt, xv.L[0])}}
		default:
			r.unsup("unop %s", x.Op)
		}
	case *ssa.BinOp:
		fr.regs[x] = r.binop(st, fr, x)
	case *ssa.FieldAddr:
		xv := r.valueOf(st, fr, x.X)
		a := r.addrOf(xv, te)
		r.checkAddr(st, fr, a, x.Pos())
		stt := structOf(te.apply(x.X.Type()))
		na := r.fieldAddr(a, stt, x.Field, te)
		fr.regs[x] = ptrVal(x.Type(), na)
	case *ssa.Field:
		xv := r.valueOf(st, fr, x.X)
		stt := structOf(te.apply(x.X.Type()))
		lo, hi := fieldRange(stt, x.Field, te)
		fr.regs[x] = &Val{T: x.Type(), L: xv.L[lo:hi]}
	case *ssa.IndexAddr:
		xv := r.valueOf(st, fr, x.X)
		iv := r.valueOf(st, fr, x.Index).L[0]
		switch tt := types.Unalias(te.apply(x.X.Type())).Underlying().(type) {
		case *types.Slice:
			r.safety(st, fr, "safe.bounds", x.Pos(), And(Ge(iv, IntLit(0)), Lt(iv, xv.L[2])))
			a := &Addr{Kind: AElem, Ref: xv.L[0], Idx: Add(xv.L[1], iv), Base: "[]" + typeName(te.apply(tt.Elem())), T: tt.Elem()}
			fr.regs[x] = ptrVal(x.Type(), a)
		case *types.Pointer:
			at, isArr := types.Unalias(te.apply(tt.Elem())).Underlying().(*types.Array)
			if !isArr || xv.A == nil || xv.A.Kind != AArr {
				r.unsup("IndexAddr on %s", x.X.Type())
			}
			r.safety(st, fr, "safe.bounds", x.Pos(), And(Ge(iv, IntLit(0)), Lt(iv, IntLit(at.Len()))))
			a := &Addr{Kind: AElem, Ref: xv.A.Ref, Idx: iv, Base: xv.A.Base, T: at.Elem()}
			fr.regs[x] = ptrVal(x.Type(), a)
		default:
			r.unsup("IndexAddr on %s", x.X.Type())
		}
	case *ssa.Index:
		xv := r.valueOf(st, fr, x.X)
		iv := r.valueOf(st, fr, x.Index).L[0]
		switch types.Unalias(te.apply(x.X.Type())).Underlying().(type) {
		case *types.Basic: // string
			r.safety(st, fr, "safe.bounds", x.Pos(), And(Ge(iv, IntLit(0)), Lt(iv, StrLen(xv.L[0]))))
			fr.regs[x] = &Val{T: x.Type(), L: []*Term{UF("strat", SInt, xv.L[0], iv)}}
		case *types.Array:
			fr.regs[x] = &Val{T: x.Type(), L: []*Term{Select(xv.L[0], iv)}}
		default:
			r.unsup("Index on %s", x.X.Type())
		}
	case *ssa.Slice:
		fr.regs[x] = r.sliceOp(st, fr, x)
	case *ssa.MakeSlice:
		n := r.valueOf(st, fr, x.Len).L[0]
		c := r.valueOf(st, fr, x.Cap).L[0]
		r.safety(st, fr, "safe.make", x.Pos(), And(Ge(n, IntLit(0)), Le(n, c)))
		el := types.Unalias(te.apply(x.Type())).Underlying().(*types.Slice).Elem()
		arr := r.newArray(st, el, te)
		fr.regs[x] = &Val{T: x.Type(), L: []*Term{arr, IntLit(0), n, c}}
	case *ssa.MakeInterface:
		xv := r.valueOf(st, fr, x.X)
		fr.regs[x] = &Val{T: x.Type(), L: []*Term{boxAny(xv, te)}}
	case *ssa.ChangeInterface:
		fr.regs[x] = &Val{T: x.Type(), L: r.valueOf(st, fr, x.X).L}
	case *ssa.ChangeType:
		xv := r.valueOf(st, fr, x.X)
		if isIfaceType(te.apply(x.Type())) && !isIfaceType(te.apply(x.X.Type())) {
			// type parameter to interface
			fr.regs[x] = &Val{T: x.Type(), L: []*Term{boxAny(xv, te)}}
		} else {
			fr.regs[x] = &Val{T: x.Type(), L: xv.L, A: xv.A}
		}
	case *ssa.Convert:
		fr.regs[x] = r.convert(st, fr, x)
	case *ssa.TypeAssert:
		xv := r.valueOf(st, fr, x.X)
		at := te.apply(x.AssertedType)
		var ok *Term
		var val *Val
		if isIface := isIfaceType(at); isIface {
			ok = And(Neq(xv.L[0], App("anynil", SAny)), UF("implements!"+typeKey(at), SBool, UF("anytag", SInt, xv.L[0])))
			if types.Unalias(at).Underlying().(*types.Interface).Empty() {
				ok = Neq(xv.L[0], App("anynil", SAny))
			}
			val = &Val{T: x.AssertedType, L: []*Term{xv.L[0]}}
		} else {
			ok = isAny(xv.L[0], at, te)
			val = unboxAny(xv.L[0], x.AssertedType, te)
		}
		if x.CommaOk {
			// value is the zero value when !ok
			z := zeroVal(x.AssertedType, te)
			out := &Val{T: x.Type()}
			for i := range val.L {
				out.L = append(out.L, Ite(ok, val.L[i], z.L[i]))
			}
			out.L = append(out.L, ok)
			fr.regs[x] = out
		} else {
			r.safety(st, fr, "safe.assert", x.Pos(), ok)
			r.assumeWF(st, val, te)
			fr.regs[x] = val
		}
	case *ssa.Extract:
		tv := r.valueOf(st, fr, x.Tuple)
		tt := x.Tuple.Type().(*types.Tuple)
		lo, hi := tupleRange(tt, x.Index, te)
		fr.regs[x] = &Val{T: x.Type(), L: tv.L[lo:hi]}
	case *ssa.MakeClosure:
		fn := x.Fn.(*ssa.Function)
		id := st.freshRef() // a closure value is a fresh, non-nil reference
		ci := &closureInfo{fn: fn}
		for _, bnd := range x.Bindings {
			ci.bindings = append(ci.bindings, r.valueOf(st, fr, bnd))
		}
		st.closure[id.String()] = ci
		// closure tags: facts that hold of every value of this closure by its own contract
		if cspec, _ := r.v.specFor(fn); cspec != nil {
			for _, c := range cspec.ClausesOf("tag") {
				for _, tg := range strings.Fields(c.Text) {
					st.assume(UF("tag!"+tg, SBool, id))
				}
			}
		}
		fr.regs[x] = &Val{T: x.Type(), L: []*Term{id}}
	case *ssa.MakeMap:
		ref := st.freshRef()
		mt := types.Unalias(te.apply(x.Type())).Underlying().(*types.Map)
		ks := layoutTE(mt.Key(), te)
		if len(ks) == 1 {
			name := "map:" + typeName(te.apply(x.Type())) + "#present"
			h := st.comp(name, ArrSort(SInt, ArrSort(ks[0].Sort, SBool)))
			st.heap[name] = Store(h, ref, App("(as const "+string(ArrSort(ks[0].Sort, SBool))+")", ArrSort(ks[0].Sort, SBool), False))
		}
		fr.regs[x] = &Val{T: x.Type(), L: []*Term{ref}}
	case *ssa.Lookup:
		lv := r.lookup(st, fr, x)
		r.assumeWF(st, lv, te)
		fr.regs[x] = lv
	case *ssa.MapUpdate:
		r.mapUpdate(st, fr, x)
	case *ssa.Range:
		xv := r.valueOf(st, fr, x.X)
		fr.regs[x] = &Val{T: x.Type(), L: []*Term{xv.L[0], Var(freshName("iter"), SInt)}}
	case *ssa.Next:
		fr.regs[x] = r.next(st, fr, x)
	case *ssa.Defer:
		fr.defers = append(fr.defers, x)
	case *ssa.RunDefers:
		for i := len(fr.defers) - 1; i >= 0; i-- {
			d := fr.defers[i]
			callee := d.Call.StaticCallee()
			name := "<dynamic>"
			if callee != nil {
				name = callee.Name()
			}
			r.note("deferred call " + name + " in " + fr.fn.Name() + " not executed (recover unmodelled)")
		}
	case *ssa.DebugRef:
	case *ssa.Call:
		cont := r.call(st, fr, x, b, idx, prev)
		if cont && fr.depth == 0 && fr.spec != nil {
			// labelled snapshots taken right after a (non-inlined) call: "at L after call NAME"
			for _, c := range fr.spec.Clauses {
				if c.Kind != "at" {
					continue
				}
				f := strings.Fields(c.Text)
				if len(f) == 4 && f[1] == "after" && f[2] == "call" {
					name := ""
					if callee := x.Common().StaticCallee(); callee != nil {
						name = callee.Name()
					} else if x.Common().IsInvoke() {
						name = x.Common().Method.Name()
					}
					want, k := f[3], 0
					if j := strings.Index(want, "#"); j > 0 {
						k = atoi(want[j+1:])
						want = want[:j]
					}
					if name == want {
						if fr.snaps == nil {
							fr.snaps = map[string]*State{}
						}
						if fr.callCount == nil {
							fr.callCount = map[string]int{}
						}
						key := c.Text
						fr.callCount[key]++
						if k == 0 || fr.callCount[key] == k {
							fr.snaps[f[0]] = st.clone() // without #k: the last such call wins
							r.labelReached(f[0])
						}
					}
				}
			}
		}
		return cont
	case *ssa.Go, *ssa.Send, *ssa.Select, *ssa.MakeChan:
		r.unsup("concurrency instruction %T", in)
	case *ssa.SliceToArrayPointer, *ssa.MultiConvert:
		r.unsup("instruction %T", in)
	default:
		r.unsup("instruction %T", in)
	}
	return true
}

// coerce adapts untyped-nil values to the target type's layout.
func (r *Run) coerce(v *Val, t types.Type, te TypeEnv) *Val {
	ls := layoutTE(t, te)
	if len(ls) == len(v.L) {
		ok := true
		for i := range ls {
			if ls[i].Sort != v.L[i].Sort {
				ok = false
			}
		}
		if ok {
			return v
		}
	}
	if b, isB := v.T.(*types.Basic); isB && b.Kind() == types.UntypedNil {
		return zeroVal(t, te)
	}
	r.unsup("cannot coerce %s %s to %s", v.T, v, t)
	return nil
}

func (r *Run) checkAddr(st *State, fr *Frame, a *Addr, pos token.Pos) {
	switch a.Kind {
	case AField, ABox:
		r.safety(st, fr, "safe.nil", pos, Neq(a.Ref, IntLit(0)))
	}
}

// safety emits an implicit-panic obligation under `safe`, else assumes the condition.
func (r *Run) safety(st *State, fr *Frame, clause string, pos token.Pos, cond *Term) {
	if cond.IsTrue() {
		return
	}
	cs := cond.String()
	for _, p := range st.pc {
		if p.String() == cs {
			return // already established on this path
		}
	}
	if r.safe && len(r.safeKinds) > 0 && !r.safeKinds[strings.TrimPrefix(clause, "safe.")] {
		st.assume(cond) // "safe k1 k2": only the listed kinds of implicit panic are proof obligations
		return
	}
	if r.safe && r.siteNames && (clause == "safe.nil" || clause == "safe.nilrecv" || clause == "safe.nilmap") {
		// the sweep does not try to prove nil-freedom of receivers and fields (that needs data-structure invariants);
		// it looks at type assertions, index/slice expressions and divisions
		st.assume(cond)
		return
	}
	if r.safe {
		props := []string(nil)
		if r.spec != nil {
			props = r.spec.Props
		}
		if r.siteNames {
			clause = clause + "(" + r.v.sourceLine(pos) + ")"
		}
		r.oblige(st, clause, props, r.v.pos(pos), cond)
	}
	st.assume(cond)
}

func (r *Run) binop(st *State, fr *Frame, x *ssa.BinOp) *Val {
	a := r.valueOf(st, fr, x.X)
	b := r.valueOf(st, fr, x.Y)
	te := fr.te
	res := func(t *Term) *Val { return &Val{T: x.Type(), L: []*Term{t}} }
	switch x.Op {
	case token.EQL, token.NEQ:
		var e *Term
		at := te.apply(x.X.Type())
		bt := te.apply(x.Y.Type())
		aIface := isIfaceType(at)
		bIface := isIfaceType(bt)
		switch {
		case aIface && !bIface:
			e = Eq(a.L[0], boxAny(r.coerceNil(b, at, te), te))
		case bIface && !aIface:
			e = Eq(boxAny(r.coerceNil(a, bt, te), te), b.L[0])
		default:
			if len(a.L) != len(b.L) {
				if bb, ok := b.T.(*types.Basic); ok && bb.Kind() == types.UntypedNil {
					b = zeroVal(a.T, te)
				} else if ab, ok := a.T.(*types.Basic); ok && ab.Kind() == types.UntypedNil {
					a = zeroVal(b.T, te)
				}
			}
			if _, isSlice := types.Unalias(at).Underlying().(*types.Slice); isSlice {
				// slice == nil
				var sl *Val = a
				if ab, ok := a.T.(*types.Basic); ok && ab.Kind() == types.UntypedNil {
					sl = b
				}
				e = And(Eq(sl.L[0], IntLit(0)))
			} else {
				var cs []*Term
				for i := range a.L {
					cs = append(cs, Eq(a.L[i], b.L[i]))
				}
				e = And(cs...)
			}
		}
		if x.Op == token.NEQ {
			e = Not(e)
		}
		return res(e)
	}
	at := a.L[0]
	bt := b.L[0]
	switch at.Sort {
	case SInt:
		switch x.Op {
		case token.ADD:
			return res(r.arithChecked(st, fr, x, Add(at, bt)))
		case token.SUB:
			return res(r.arithChecked(st, fr, x, Sub(at, bt)))
		case token.MUL:
			return res(r.arithChecked(st, fr, x, Mul(at, bt)))
		case token.QUO:
			r.safety(st, fr, "safe.div", x.Pos(), Neq(bt, IntLit(0)))
			return res(GoDiv(at, bt))
		case token.REM:
			r.safety(st, fr, "safe.div", x.Pos(), Neq(bt, IntLit(0)))
			return res(GoRem(at, bt))
		case token.LSS:
			return res(Lt(at, bt))
		case token.LEQ:
			return res(Le(at, bt))
		case token.GTR:
			return res(Gt(at, bt))
		case token.GEQ:
			return res(Ge(at, bt))
		case token.AND, token.OR, token.XOR, token.SHL, token.SHR, token.AND_NOT:
			if t := bitopArith(x.Op, at, bt); t != nil {
				return res(t)
			}
			return res(UF("bitop!"+x.Op.String(), SInt, at, bt))
		}
	case SBool:
		switch x.Op {
		case token.LAND, token.AND:
			return res(And(at, bt))
		case token.LOR, token.OR:
			return res(Or(at, bt))
		}
	case SStr:
		switch x.Op {
		case token.ADD:
			return res(UF("strcat", SStr, at, bt))
		case token.LSS:
			return res(StrLt(at, bt))
		case token.GTR:
			return res(StrLt(bt, at))
		case token.LEQ:
			return res(Not(StrLt(bt, at)))
		case token.GEQ:
			return res(Not(StrLt(at, bt)))
		}
	case SReal:
		switch x.Op {
		case token.LSS, token.LEQ, token.GTR, token.GEQ:
			return res(UF("fcmp!"+x.Op.String(), SBool, at, bt))
		default:
			return res(UF("fop!"+x.Op.String(), SReal, at, bt))
		}
	}
	r.unsup("binop %s on %s", x.Op, at.Sort)
	return nil
}

func (r *Run) coerceNil(v *Val, ifaceT types.Type, te TypeEnv) *Val {
	return v
}

func (r *Run) arithChecked(st *State, fr *Frame, x *ssa.BinOp, t *Term) *Term {
	if r.overflow {
		if b, ok := types.Unalias(x.Type()).Underlying().(*types.Basic); ok {
			lo, hi := intRange(b)
			if lo != nil {
				r.safety(st, fr, "safe.overflow", x.Pos(), And(Le(lo, t), Le(t, hi)))
			}
		}
	}
	return t
}

func intRange(b *types.Basic) (*Term, *Term) {
	switch b.Kind() {
	case types.Int, types.Int64:
		return IntLit(-1 << 63), IntLit(1<<63 - 1)
	case types.Int32:
		return IntLit(-1 << 31), IntLit(1<<31 - 1)
	case types.Int16:
		return IntLit(-1 << 15), IntLit(1<<15 - 1)
	case types.Int8:
		return IntLit(-128), IntLit(127)
	case types.Uint8:
		return IntLit(0), IntLit(255)
	case types.Uint16:
		return IntLit(0), IntLit(65535)
	case types.Uint32:
		return IntLit(0), IntLit(1<<32 - 1)
	case types.Uint, types.Uint64, types.Uintptr:
		return IntLit(0), IntBig(newBigU(^uint64(0)))
	}
	return nil, nil
}

func (r *Run) sliceOp(st *State, fr *Frame, x *ssa.Slice) *Val {
	te := fr.te
	xv := r.valueOf(st, fr, x.X)
	var lo, hi *Term
	if x.Low != nil {
		lo = r.valueOf(st, fr, x.Low).L[0]
	} else {
		lo = IntLit(0)
	}
	switch tt := types.Unalias(te.apply(x.X.Type())).Underlying().(type) {
	case *types.Pointer:
		at, isArr := types.Unalias(te.apply(tt.Elem())).Underlying().(*types.Array)
		if !isArr || xv.A == nil || xv.A.Kind != AArr {
			r.unsup("slice of %s", x.X.Type())
		}
		n := IntLit(at.Len())
		if x.High != nil {
			hi = r.valueOf(st, fr, x.High).L[0]
		} else {
			hi = n
		}
		r.safety(st, fr, "safe.slice", x.Pos(), And(Ge(lo, IntLit(0)), Le(lo, hi), Le(hi, n)))
		return &Val{T: x.Type(), L: []*Term{xv.A.Ref, lo, Sub(hi, lo), Sub(n, lo)}}
	case *types.Slice:
		if x.High != nil {
			hi = r.valueOf(st, fr, x.High).L[0]
		} else {
			hi = xv.L[2]
		}
		if x.Max != nil {
			r.unsup("3-index slice")
		}
		r.safety(st, fr, "safe.slice", x.Pos(), And(Ge(lo, IntLit(0)), Le(lo, hi), Le(hi, xv.L[3])))
		return &Val{T: x.Type(), L: []*Term{xv.L[0], Add(xv.L[1], lo), Sub(hi, lo), Sub(xv.L[3], lo)}}
	case *types.Basic:
		n := StrLen(xv.L[0])
		if x.High != nil {
			hi = r.valueOf(st, fr, x.High).L[0]
		} else {
			hi = n
		}
		r.safety(st, fr, "safe.slice", x.Pos(), And(Ge(lo, IntLit(0)), Le(lo, hi), Le(hi, n)))
		return &Val{T: x.Type(), L: []*Term{UF("substr", SStr, xv.L[0], lo, hi)}}
	}
	r.unsup("slice of %s", x.X.Type())
	return nil
}

func (r *Run) convert(st *State, fr *Frame, x *ssa.Convert) *Val {
	xv := r.valueOf(st, fr, x.X)
	from := layoutTE(x.X.Type(), fr.te)
	to := layoutTE(x.Type(), fr.te)
	if len(from) == 1 && len(to) == 1 && from[0].Sort == to[0].Sort {
		if from[0].Sort == SInt {
			fb, ok1 := types.Unalias(x.X.Type()).Underlying().(*types.Basic)
			tb, ok2 := types.Unalias(x.Type()).Underlying().(*types.Basic)
			if ok1 && ok2 && fb.Kind() != tb.Kind() {
				lo, hi := intRange(tb)
				flo, fhi := intRange(fb)
				if lo != nil && flo != nil {
					l1, _ := lo.IntVal()
					h1, _ := hi.IntVal()
					l0, _ := flo.IntVal()
					h0, _ := fhi.IntVal()
					if (l0.Cmp(l1) < 0 || h0.Cmp(h1) > 0) && r.cmode {
						// exact two's complement conversion: reduce modulo 2^N into the target range
						span := new(big.Int).Add(new(big.Int).Sub(h1, l1), big.NewInt(1))
						w := Add(App("mod", SInt, Sub(xv.L[0], IntBig(l1)), IntBig(span)), IntBig(l1))
						return &Val{T: x.Type(), L: []*Term{w}}
					}
					if l0.Cmp(l1) < 0 || h0.Cmp(h1) > 0 {
						// narrowing conversion: exact only if the value fits
						if r.overflow {
							r.safety(st, fr, "safe.overflow", x.Pos(), And(Le(lo, xv.L[0]), Le(xv.L[0], hi)))
						} else {
							r.note("integer conversion " + fb.Name() + "->" + tb.Name() + " in " + fr.fn.Name() + " treated as value-preserving")
						}
					}
				}
			}
		}
		return &Val{T: x.Type(), L: xv.L, A: xv.A}
	}
	if len(to) == 1 && to[0].Sort == SStr {
		switch {
		case len(from) == 1 && from[0].Sort == SInt:
			return &Val{T: x.Type(), L: []*Term{UF("str_of_rune", SStr, xv.L[0])}}
		case len(from) == 4:
			el := typeName(types.Unalias(x.X.Type()).Underlying().(*types.Slice).Elem())
			comp := st.comp("[]"+el, ArrSort(SInt, ArrSort(SInt, SInt)))
			return &Val{T: x.Type(), L: []*Term{UF("str_of_"+el+"s", SStr, Select(comp, xv.L[0]), xv.L[1], xv.L[2])}}
		}
	}
	if len(to) == 4 && len(from) == 1 && from[0].Sort == SStr {
		// []byte(s) / []rune(s): fresh array, contents given by uninterpreted decoding
		sl := types.Unalias(x.Type()).Underlying().(*types.Slice)
		el := typeName(sl.Elem())
		arr := r.newArray(st, sl.Elem(), fr.te)
		n := UF("len_"+el+"s_of_str", SInt, xv.L[0])
		st.assume(Ge(n, IntLit(0)))
		name := "[]" + el
		h := st.comp(name, ArrSort(SInt, ArrSort(SInt, SInt)))
		st.heap[name] = Store(h, arr, UF(el+"s_of_str", ArrSort(SInt, SInt), xv.L[0]))
		return &Val{T: x.Type(), L: []*Term{arr, IntLit(0), n, n}}
	}
	if len(to) == 1 && len(from) == 1 {
		return &Val{T: x.Type(), L: []*Term{UF("conv!"+string(from[0].Sort)+"!"+string(to[0].Sort), to[0].Sort, xv.L[0])}}
	}
	r.unsup("convert %s -> %s", x.X.Type(), x.Type())
	return nil
}

func (r *Run) lookup(st *State, fr *Frame, x *ssa.Lookup) *Val {
	te := fr.te
	xv := r.valueOf(st, fr, x.X)
	kv := r.valueOf(st, fr, x.Index)
	mt, isMap := types.Unalias(te.apply(x.X.Type())).Underlying().(*types.Map)
	if !isMap {
		// string index
		return &Val{T: x.Type(), L: []*Term{UF("strat", SInt, xv.L[0], kv.L[0])}}
	}
	ks := layoutTE(mt.Key(), te)
	if len(ks) != 1 {
		// a struct key: one abstract key per tuple of components (an uninterpreted function; without an
		// injectivity axiom distinct keys MAY share a slot in a model, which only makes fewer things provable)
		kv, ks = compositeKey(kv, mt.Key(), te)
	}
	if isIface := isIfaceType(te.apply(x.Index.Type())); !isIface && ks[0].Sort == SAny {
		kv = &Val{T: mt.Key(), L: []*Term{boxAny(kv, te)}}
	}
	mname := "map:" + typeName(te.apply(x.X.Type()))
	pres := Select(Select(st.comp(mname+"#present", ArrSort(SInt, ArrSort(ks[0].Sort, SBool))), xv.L[0]), kv.L[0])
	out := &Val{T: x.Type()}
	z := zeroVal(mt.Elem(), te)
	for i, l := range layoutTE(mt.Elem(), te) {
		name := joinPath(mname+"#val", l.Path)
		val := Select(Select(st.comp(name, ArrSort(SInt, ArrSort(ks[0].Sort, l.Sort))), xv.L[0]), kv.L[0])
		out.L = append(out.L, Ite(pres, val, z.L[i]))
	}
	if x.CommaOk {
		out.L = append(out.L, pres)
	}
	return out
}

func (r *Run) mapUpdate(st *State, fr *Frame, x *ssa.MapUpdate) {
	te := fr.te
	mv := r.valueOf(st, fr, x.Map)
	kv := r.valueOf(st, fr, x.Key)
	vv := r.valueOf(st, fr, x.Value)
	mt := types.Unalias(te.apply(x.Map.Type())).Underlying().(*types.Map)
	ks := layoutTE(mt.Key(), te)
	if len(ks) != 1 {
		kv, ks = compositeKey(kv, mt.Key(), te)
	}
	r.safety(st, fr, "safe.nilmap", x.Pos(), Neq(mv.L[0], IntLit(0)))
	mname := "map:" + typeName(te.apply(x.Map.Type()))
	pn := mname + "#present"
	ph := st.comp(pn, ArrSort(SInt, ArrSort(ks[0].Sort, SBool)))
	st.heap[pn] = Store(ph, mv.L[0], Store(Select(ph, mv.L[0]), kv.L[0], True))
	vv = r.coerce(vv, mt.Elem(), te)
	if isIface := isIfaceType(mt.Elem()); isIface {
		if srcIface := isIfaceType(te.apply(x.Value.Type())); !srcIface {
			vv = &Val{T: mt.Elem(), L: []*Term{boxAny(vv, te)}}
		}
	}
	for i, l := range layoutTE(mt.Elem(), te) {
		name := joinPath(mname+"#val", l.Path)
		h := st.comp(name, ArrSort(SInt, ArrSort(ks[0].Sort, l.Sort)))
		st.heap[name] = Store(h, mv.L[0], Store(Select(h, mv.L[0]), kv.L[0], vv.L[i]))
	}
}

func (r *Run) next(st *State, fr *Frame, x *ssa.Next) *Val {
	te := fr.te
	it := r.valueOf(st, fr, x.Iter)
	rng := x.Iter.(*ssa.Range)
	out := &Val{T: x.Type()}
	ok := Var(freshName("next.ok"), SBool)
	out.L = append(out.L, ok)
	tt := x.Type().(*types.Tuple)
	if x.IsString {
		k := Var(freshName("next.idx"), SInt)
		v := Var(freshName("next.rune"), SInt)
		st.assume(Implies(ok, And(Ge(k, IntLit(0)), Lt(k, StrLen(it.L[0])))))
		out.L = append(out.L, k, v)
		return out
	}
	mt := types.Unalias(te.apply(rng.X.Type())).Underlying().(*types.Map)
	ks := layoutTE(mt.Key(), te)
	kv := freshVal(mt.Key(), "next.key", te)
	mname := "map:" + typeName(te.apply(rng.X.Type()))
	if len(ks) == 1 {
		pres := Select(Select(st.comp(mname+"#present", ArrSort(SInt, ArrSort(ks[0].Sort, SBool))), it.L[0]), kv.L[0])
		st.assume(Implies(ok, pres))
	}
	// key leaves (tuple slot 1 may be invalid type if unused)
	if tt.At(1).Type() != nil && !isInvalid(tt.At(1).Type()) {
		out.L = append(out.L, kv.L...)
	}
	if tt.At(2).Type() != nil && !isInvalid(tt.At(2).Type()) {
		if len(ks) == 1 {
			for _, l := range layoutTE(mt.Elem(), te) {
				name := joinPath(mname+"#val", l.Path)
				out.L = append(out.L, Select(Select(st.comp(name, ArrSort(SInt, ArrSort(ks[0].Sort, l.Sort))), it.L[0]), kv.L[0]))
			}
		} else {
			out.L = append(out.L, freshVal(mt.Elem(), "next.val", te).L...)
		}
	}
	return out
}

func isInvalid(t types.Type) bool {
	b, ok := t.(*types.Basic)
	return ok && b.Kind() == types.Invalid
}

// bitopArith gives exact integer-arithmetic meanings to bit operations with a literal operand:
//   x & m  with m = 2^a - 2^b (a contiguous run of ones, b >= 0):  (x mod 2^a) - (x mod 2^b)
//   x << k = x * 2^k ;  x >> k = floor(x / 2^k)   (two's complement, value-preserving while in range)
// (SMT-LIB mod is non-negative and div floors for positive divisors, which is two's complement behaviour).
func bitopArith(op token.Token, a, b *Term) *Term {
	lit := func(t *Term) (*big.Int, bool) {
		if t.Kind == KLit && t.Sort == SInt {
			n, ok := new(big.Int).SetString(t.Op, 10)
			return n, ok
		}
		return nil, false
	}
	pow2 := func(k int) *Term { return IntBig(new(big.Int).Lsh(big.NewInt(1), uint(k))) }
	switch op {
	case token.AND:
		m, ok := lit(b)
		x := a
		if !ok {
			m, ok = lit(a)
			x = b
		}
		if !ok || m.Sign() < 0 {
			return nil
		}
		if m.Sign() == 0 {
			return IntLit(0)
		}
		lowbit := 0
		for m.Bit(lowbit) == 0 {
			lowbit++
		}
		top := new(big.Int).Add(m, new(big.Int).Lsh(big.NewInt(1), uint(lowbit)))
		// contiguous run of ones iff m + lowbit is a power of two
		if top.BitLen()-1 < 0 || new(big.Int).Lsh(big.NewInt(1), uint(top.BitLen()-1)).Cmp(top) != 0 {
			return nil
		}
		hi := top.BitLen() - 1
		if lowbit == 0 {
			return App("mod", SInt, x, pow2(hi))
		}
		return Sub(App("mod", SInt, x, pow2(hi)), App("mod", SInt, x, pow2(lowbit)))
	case token.SHL:
		if k, ok := lit(b); ok && k.Sign() >= 0 && k.BitLen() < 8 {
			return Mul(a, pow2(int(k.Int64())))
		}
	case token.SHR:
		if k, ok := lit(b); ok && k.Sign() >= 0 && k.BitLen() < 8 {
			return App("div", SInt, a, pow2(int(k.Int64())))
		}
	}
	return nil
}

// compositeKey folds the components of a struct-typed map key into one abstract key of sort Int.
func compositeKey(kv *Val, kt types.Type, te TypeEnv) (*Val, []Leaf) {
	name := "mapkey!" + typeName(te.apply(kt))
	k := UF(name, SInt, kv.L...)
	return &Val{T: kt, L: []*Term{k}}, []Leaf{{Sort: SInt, T: types.Typ[types.Int]}}
}
