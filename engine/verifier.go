package main

// Loading of /repo, contract lookup, per-function verification and lemma checking.

import (
	"regexp"
	"fmt"
	"go/token"
	"go/types"
	"os"
	"path/filepath"
	"sort"
	"strings"

	"golang.org/x/tools/go/packages"
	"golang.org/x/tools/go/ssa"
	"golang.org/x/tools/go/ssa/ssautil"
)

type Verifier struct {
	repo      string
	prog      *ssa.Program
	pkgs      []*packages.Package
	pkgByPath map[string]*packages.Package
	contracts map[string]*ContractSet // by package path
	fset      *token.FileSet
	pureAx    map[string]func() *Term // UF name -> axiom builder
	pureAxC   map[string]*Term
	linkC     map[string][]*Term
	pseudoTP  map[string]*types.TypeParam
	loadErrs  []string
}

var epochVarRe = regexp.MustCompile(`^H([1-9][0-9]*)!(.*)$`)

const modPath = "github.com/DDP-Projekt/Kompilierer"

// extraPkg: a Go package outside the repository's module that is generated on every run from repository sources
// (the C runtime extracted by tools/c2go.py); its contracts live in a comment block of a file inside the repository.
type extraPkg struct {
	Dir       string // directory of the generated module
	Contracts string // file with the /*@ ... @*/ blocks
}

func LoadVerifier(repo string, patterns []string, trustedDir string, extras ...extraPkg) (*Verifier, error) {
	v := &Verifier{repo: repo, pkgByPath: map[string]*packages.Package{}, contracts: map[string]*ContractSet{},
		pureAx: map[string]func() *Term{}, pureAxC: map[string]*Term{}, pseudoTP: map[string]*types.TypeParam{}}
	env := os.Environ()
	env = append(env, "GOFLAGS=-mod=mod", "GOPROXY=off")
	fset := token.NewFileSet()
	cfg := &packages.Config{Mode: packages.LoadAllSyntax, Dir: repo, BuildFlags: []string{"-tags=verif"}, Env: env, Fset: fset}
	var pkgs []*packages.Package
	var err error
	if len(patterns) > 0 {
		pkgs, err = packages.Load(cfg, patterns...)
		if err != nil {
			return nil, err
		}
	}
	extraContracts := map[string]string{}
	for _, x := range extras {
		xcfg := &packages.Config{Mode: packages.LoadAllSyntax, Dir: x.Dir, Env: env, Fset: fset}
		xp, err := packages.Load(xcfg, "./...")
		if err != nil {
			return nil, err
		}
		for _, p := range xp {
			extraContracts[p.PkgPath] = x.Contracts
		}
		pkgs = append(pkgs, xp...)
	}
	for _, p := range pkgs {
		for _, e := range p.Errors {
			v.loadErrs = append(v.loadErrs, e.Error())
		}
	}
	if len(v.loadErrs) > 0 {
		return nil, fmt.Errorf("package load errors: %s", strings.Join(v.loadErrs, "; "))
	}
	v.pkgs = pkgs
	prog, _ := ssautil.AllPackages(pkgs, ssa.NaiveForm)
	prog.Build()
	v.prog = prog
	v.fset = prog.Fset
	packages.Visit(pkgs, nil, func(p *packages.Package) {
		v.pkgByPath[p.PkgPath] = p
	})
	// contract files inside the repo
	for path, p := range v.pkgByPath {
		if !strings.HasPrefix(path, modPath) {
			continue
		}
		if len(p.GoFiles) == 0 {
			continue
		}
		dir := filepath.Dir(p.GoFiles[0])
		f := filepath.Join(dir, "contracts_verif.go")
		if xf, ok := extraContracts[path]; ok {
			f = xf
		}
		if _, err := os.Stat(f); err == nil {
			cs, err := LoadContractFile(f, false)
			if err != nil {
				return nil, err
			}
			cs.PkgPath = path
			cs.PkgName = p.Name
			cs.Label = path[strings.LastIndex(path, "/")+1:]
			v.contracts[path] = cs
		}
	}
	// trusted contracts for code outside the repo
	if trustedDir != "" {
		files, _ := filepath.Glob(filepath.Join(trustedDir, "*.spec"))
		sort.Strings(files)
		for _, f := range files {
			cs, err := LoadContractFile(f, true)
			if err != nil {
				return nil, err
			}
			if cs.PkgPath == "" {
				return nil, fmt.Errorf("%s: missing package line", f)
			}
			if old, ok := v.contracts[cs.PkgPath]; ok {
				// merge trusted items into an existing set (e.g. trusted interface-method contracts)
				for k, fs := range cs.Funcs {
					if _, dup := old.Funcs[k]; !dup {
						fs.Pkg = old
						old.Funcs[k] = fs
					}
				}
				continue
			}
			if p, ok := v.pkgByPath[cs.PkgPath]; ok && cs.PkgName == "" {
				cs.PkgName = p.Name
			}
			cs.Label = cs.PkgPath[strings.LastIndex(cs.PkgPath, "/")+1:]
			v.contracts[cs.PkgPath] = cs
		}
	}
	for _, cs := range v.contracts {
		for name, t := range cs.Ghosts {
			if strings.Contains(name, ".") {
				ghostDecls[cs.Label+"."+name] = t.Name
			} else {
				ghostDecls[name] = t.Name
			}
		}
	}
	return v, nil
}

func (v *Verifier) pos(p token.Pos) string {
	if !p.IsValid() {
		return "?"
	}
	pp := v.fset.Position(p)
	return fmt.Sprintf("%s:%d", strings.TrimPrefix(pp.Filename, v.repo+"/"), pp.Line)
}

var srcCache = map[string][]string{}

// sourceLine returns the trimmed source line of a position (used to name sweep obligations stably).
func (v *Verifier) sourceLine(p token.Pos) string {
	if !p.IsValid() {
		return "?"
	}
	pp := v.fset.Position(p)
	lines, ok := srcCache[pp.Filename]
	if !ok {
		data, err := os.ReadFile(pp.Filename)
		if err == nil {
			lines = strings.Split(string(data), "\n")
		}
		srcCache[pp.Filename] = lines
	}
	if pp.Line-1 < len(lines) && pp.Line >= 1 {
		l := strings.TrimSpace(lines[pp.Line-1])
		if len(l) > 90 {
			l = l[:90]
		}
		return l
	}
	return "?"
}

// SweepTargets lists the functions of a package that have no contract (for the zero-annotation safety sweep).
func (v *Verifier) SweepTargets(pkgPath string, prop string) []*ssa.Function {
	p := v.pkgByPath[pkgPath]
	if p == nil {
		return nil
	}
	sp := v.prog.Package(p.Types)
	var out []*ssa.Function
	seen := map[*ssa.Function]bool{}
	var add func(fn *ssa.Function)
	add = func(fn *ssa.Function) {
		if fn == nil || seen[fn] || fn.Blocks == nil || fn.Synthetic != "" {
			return
		}
		seen[fn] = true
		if strings.HasSuffix(v.fset.Position(fn.Pos()).Filename, "_test.go") {
			return
		}
		// swept: functions without a contract, and functions whose contract belongs to other properties only (their
		// implicit-panic sites stay obligations of this property when they get such a contract)
		if spec, _ := v.specFor(fn); spec == nil {
			out = append(out, fn)
		} else if !spec.Trusted && !spec.Has("trusted") {
			mine := false
			for _, p := range spec.Props {
				if p == prop {
					mine = true
				}
			}
			if !mine && len(spec.Props) > 0 {
				out = append(out, fn)
			}
		}
		for _, a := range fn.AnonFuncs {
			add(a)
		}
	}
	var names []string
	for n := range sp.Members {
		names = append(names, n)
	}
	sort.Strings(names)
	for _, n := range names {
		switch mm := sp.Members[n].(type) {
		case *ssa.Function:
			add(mm)
		case *ssa.Type:
			if named, ok := mm.Type().(*types.Named); ok {
				for i := 0; i < named.NumMethods(); i++ {
					add(v.prog.FuncValue(named.Method(i)))
				}
			}
		}
	}
	return out
}

func (v *Verifier) typesPkgOf(cs *ContractSet) *types.Package {
	if p, ok := v.pkgByPath[cs.PkgPath]; ok {
		return p.Types
	}
	return nil
}

func (v *Verifier) pseudoTypeParam(name string) *types.TypeParam {
	if tp, ok := v.pseudoTP[name]; ok {
		return tp
	}
	tn := types.NewTypeName(token.NoPos, nil, name, nil)
	tp := types.NewTypeParam(tn, types.NewInterfaceType(nil, nil))
	v.pseudoTP[name] = tp
	return tp
}

// findImport resolves a package name as seen from package from.
func (v *Verifier) findImport(from *types.Package, name string) *types.Package {
	if from != nil {
		if from.Name() == name {
			return from
		}
		if p, ok := v.pkgByPath[from.Path()]; ok {
			// import names as declared in source (handles renamed imports)
			for _, f := range p.Syntax {
				for _, im := range f.Imports {
					path := strings.Trim(im.Path.Value, `"`)
					ip := p.Imports[path]
					if ip == nil {
						continue
					}
					if (im.Name != nil && im.Name.Name == name) || (im.Name == nil && ip.Name == name) {
						return ip.Types
					}
				}
			}
		}
	}
	// fall back: any loaded package of that name inside the module
	var cands []string
	for path, p := range v.pkgByPath {
		if p.Name == name {
			cands = append(cands, path)
		}
	}
	sort.Slice(cands, func(i, j int) bool {
		mi, mj := strings.HasPrefix(cands[i], modPath), strings.HasPrefix(cands[j], modPath)
		if mi != mj {
			return mi
		}
		return cands[i] < cands[j]
	})
	if len(cands) > 0 {
		return v.pkgByPath[cands[0]].Types
	}
	return nil
}

// activateImmutables makes the immutable declarations of cs and of the contract sets of all
// packages it (transitively) imports the active ones.
func (v *Verifier) activateImmutables(cs *ContractSet) {
	immutableComps = map[string]bool{}
	if cs == nil {
		return
	}
	seen := map[string]bool{}
	var visit func(path string)
	visit = func(path string) {
		if seen[path] {
			return
		}
		seen[path] = true
		if c := v.contracts[path]; c != nil {
			for _, n := range c.Immutable {
				immutableComps[n] = true
			}
		}
		if p := v.pkgByPath[path]; p != nil {
			for ip := range p.Imports {
				visit(ip)
			}
		}
	}
	visit(cs.PkgPath)
}

// targetName renders the contract key of a function.
func targetName(fn *ssa.Function) string {
	if fn.Parent() != nil {
		p := fn.Parent()
		for i, a := range p.AnonFuncs {
			if a == fn {
				return fmt.Sprintf("%s$%d", targetName(p), i+1)
			}
		}
	}
	if o := fn.Origin(); o != nil {
		return targetName(o)
	}
	if fn.Signature != nil && fn.Signature.Recv() != nil {
		rt := fn.Signature.Recv().Type()
		star := ""
		if p, ok := rt.(*types.Pointer); ok {
			star = "*"
			rt = p.Elem()
		}
		name := "?"
		if n, ok := types.Unalias(rt).(*types.Named); ok {
			name = n.Obj().Name()
		}
		return "(" + star + name + ")." + fn.Name()
	}
	return fn.Name()
}

func fnPkgPath(fn *ssa.Function) string {
	for f := fn; f != nil; f = f.Parent() {
		if o := f.Origin(); o != nil {
			f = o
		}
		if f.Pkg != nil {
			return f.Pkg.Pkg.Path()
		}
		if f.Object() != nil && f.Object().Pkg() != nil {
			return f.Object().Pkg().Path()
		}
	}
	return ""
}

func (v *Verifier) contractsOfFn(fn *ssa.Function) *ContractSet {
	return v.contracts[fnPkgPath(fn)]
}

func (v *Verifier) specFor(fn *ssa.Function) (*FuncSpec, *ContractSet) {
	cs := v.contractsOfFn(fn)
	if cs == nil {
		return nil, nil
	}
	if fs, ok := cs.Funcs[targetName(fn)]; ok {
		return fs, cs
	}
	return nil, cs
}

func (v *Verifier) methodSpec(com *ssa.CallCommon) *FuncSpec {
	return v.methodSpecOf(com.Value.Type(), com.Method.Name())
}

// methodSpecOf finds the contract of an interface method, looking through embedded interfaces.
func (v *Verifier) methodSpecOf(t types.Type, method string) *FuncSpec {
	t = types.Unalias(t)
	n, ok := t.(*types.Named)
	if !ok {
		return nil
	}
	if n.Obj().Pkg() != nil {
		if cs := v.contracts[n.Obj().Pkg().Path()]; cs != nil {
			if fs, ok := cs.Funcs["("+n.Obj().Name()+")."+method]; ok {
				return fs
			}
		}
	}
	if it, ok := n.Underlying().(*types.Interface); ok {
		for i := 0; i < it.NumEmbeddeds(); i++ {
			if fs := v.methodSpecOf(it.EmbeddedType(i), method); fs != nil {
				return fs
			}
		}
	}
	return nil
}

// funcTypeSpec finds the contract attached to a named function type ("functype T").
func (v *Verifier) funcTypeSpec(t types.Type) *FuncSpec {
	n, ok := types.Unalias(t).(*types.Named)
	if !ok || n.Obj().Pkg() == nil {
		return nil
	}
	cs := v.contracts[n.Obj().Pkg().Path()]
	if cs == nil {
		return nil
	}
	return cs.Funcs["functype:"+n.Obj().Name()]
}

// CheckFrame: syntactic frame obligation over the SSA of a package: only the listed functions store to the field.
func (v *Verifier) CheckFrame(cs *ContractSet, fd *FrameDecl) (ok bool, offenders []string) {
	p := v.pkgByPath[cs.PkgPath]
	if p == nil {
		return false, []string{"package not loaded"}
	}
	sp := v.prog.Package(p.Types)
	allowed := map[string]bool{}
	for _, w := range fd.Writers {
		allowed[w] = true
	}
	dot := strings.LastIndex(fd.Field, ".")
	typ, field := fd.Field[:dot], fd.Field[dot+1:]
	found := false
	var visit func(fn *ssa.Function)
	seen := map[*ssa.Function]bool{}
	visit = func(fn *ssa.Function) {
		if fn == nil || seen[fn] {
			return
		}
		seen[fn] = true
		for _, b := range fn.Blocks {
			for _, in := range b.Instrs {
				st, isStore := in.(*ssa.Store)
				if !isStore {
					continue
				}
				fa, isFA := st.Addr.(*ssa.FieldAddr)
				if !isFA {
					continue
				}
				s := structOf(fa.X.Type())
				if s == nil || s.Field(fa.Field).Name() != field {
					continue
				}
				pt := derefType(fa.X.Type())
				if pt == nil || typeName(pt) != typ {
					continue
				}
				found = true
				if !allowed[targetName(fn)] {
					offenders = append(offenders, targetName(fn)+" ("+v.pos(st.Pos())+")")
				}
			}
		}
		for _, a := range fn.AnonFuncs {
			visit(a)
		}
	}
	for _, m := range sp.Members {
		switch mm := m.(type) {
		case *ssa.Function:
			visit(mm)
		case *ssa.Type:
			if named, ok := mm.Type().(*types.Named); ok {
				for i := 0; i < named.NumMethods(); i++ {
					visit(v.prog.FuncValue(named.Method(i)))
				}
			}
		}
	}
	if !found {
		return false, []string{"no store to " + fd.Field + " found at all (field renamed or removed?)"}
	}
	return len(offenders) == 0, offenders
}

// CheckOrdered: for every function of the package that calls one of the named functions, are all those calls outside
// loops that range over a map? Result: "function:callee" -> positions of offending calls (empty = fine).
func (v *Verifier) CheckOrdered(cs *ContractSet, od *OrderedDecl) map[string][]string {
	out := map[string][]string{}
	p := v.pkgByPath[cs.PkgPath]
	if p == nil {
		return out
	}
	sp := v.prog.Package(p.Types)
	want := map[string]bool{}
	for _, n := range od.Names {
		want[n] = true
	}
	seen := map[*ssa.Function]bool{}
	var visit func(fn *ssa.Function)
	visit = func(fn *ssa.Function) {
		if fn == nil || seen[fn] {
			return
		}
		seen[fn] = true
		for _, b := range fn.Blocks {
			for _, in := range b.Instrs {
				c, ok := in.(*ssa.Call)
				if !ok {
					continue
				}
				name := ""
				if callee := c.Common().StaticCallee(); callee != nil {
					name = callee.Name()
				} else if c.Common().IsInvoke() {
					name = c.Common().Method.Name()
				}
				if !want[name] {
					continue
				}
				key := targetName(fn) + ":" + name
				if _, ok := out[key]; !ok {
					out[key] = nil
				}
				if inMapRangeLoop(fn, b) {
					out[key] = append(out[key], v.pos(c.Pos()))
				}
			}
		}
		for _, a := range fn.AnonFuncs {
			visit(a)
		}
	}
	for _, m := range sp.Members {
		switch mm := m.(type) {
		case *ssa.Function:
			visit(mm)
		case *ssa.Type:
			if named, ok := mm.Type().(*types.Named); ok {
				for i := 0; i < named.NumMethods(); i++ {
					visit(v.prog.FuncValue(named.Method(i)))
				}
				// methods with pointer receivers
				ms := v.prog.MethodSets.MethodSet(types.NewPointer(named))
				for i := 0; i < ms.Len(); i++ {
					visit(v.prog.MethodValue(ms.At(i)))
				}
			}
		}
	}
	return out
}

func (v *Verifier) isPureFuncType(t types.Type) bool {
	n, ok := types.Unalias(t).(*types.Named)
	if !ok || n.Obj().Pkg() == nil {
		return false
	}
	cs := v.contracts[n.Obj().Pkg().Path()]
	return cs != nil && cs.PureTypes[n.Obj().Name()]
}

// lookupFunc finds the ssa function for a contract target in a package.
func (v *Verifier) lookupFunc(pkgPath, target string) *ssa.Function {
	p := v.pkgByPath[pkgPath]
	if p == nil {
		return nil
	}
	sp := v.prog.Package(p.Types)
	if sp == nil {
		return nil
	}
	if i := strings.Index(target, "#"); i >= 0 {
		target = target[:i] // "#k": a further contract (another view) of the same function
	}
	parts := strings.Split(target, "$")
	base := parts[0]
	var fn *ssa.Function
	if strings.HasPrefix(base, "(") {
		i := strings.Index(base, ").")
		recv := strings.TrimPrefix(base[1:i], "*")
		mname := base[i+2:]
		o := p.Types.Scope().Lookup(recv)
		if o == nil {
			return nil
		}
		named, ok := o.Type().(*types.Named)
		if !ok {
			return nil
		}
		for k := 0; k < named.NumMethods(); k++ {
			if named.Method(k).Name() == mname {
				fn = v.prog.FuncValue(named.Method(k))
			}
		}
	} else {
		fn = sp.Func(base)
	}
	for _, ord := range parts[1:] {
		if fn == nil {
			return nil
		}
		k := atoi(ord)
		if k < 1 || k > len(fn.AnonFuncs) {
			return nil
		}
		fn = fn.AnonFuncs[k-1]
	}
	return fn
}

// ---------- pure functions ----------

func (v *Verifier) pureUFName(spec *FuncSpec) string {
	return "pure!" + spec.Pkg.Label + "." + spec.Target
}

func (v *Verifier) pureResult(spec *FuncSpec, cs *ContractSet, callee *ssa.Function, sig *types.Signature, args []*Val, te TypeEnv, rt types.Type) *Val {
	var flat []*Term
	for i, a := range args {
		// box arguments passed at interface-typed parameters
		var pt types.Type
		if callee != nil && i < len(callee.Params) {
			pt = callee.Params[i].Type()
		}
		if pt != nil && isIfaceType(te.apply(pt)) && !(len(a.L) == 1 && a.L[0].Sort == SAny) {
			flat = append(flat, boxAny(a, te))
			continue
		}
		flat = append(flat, a.L...)
	}
	base := v.pureUFName(spec)
	out := &Val{T: rt}
	for _, l := range layoutTE(rt, te) {
		out.L = append(out.L, UF(base+leafSuffix(l.Path), l.Sort, flat...))
	}
	if _, ok := v.pureAx[base]; !ok {
		v.pureAx[base] = func() *Term { return v.buildPureAxiom(spec, cs, callee, sig) }
	}
	return out
}

// buildPureAxiom: forall params. requires ==> ensures[result := f(params)]
func (v *Verifier) buildPureAxiom(spec *FuncSpec, cs *ContractSet, callee *ssa.Function, sig *types.Signature) *Term {
	ens := spec.ClausesOf("ensures")
	if len(ens) == 0 {
		return True
	}
	saved := immutableComps
	v.activateImmutables(cs)
	defer func() { immutableComps = saved }()
	r := &Run{v: v, fname: "axiom:" + spec.Target, assumptions: map[string]bool{}, trustedUsed: map[string]bool{}, maxPaths: 1}
	st := newState()
	vars := map[string]*Val{}
	var bs []*Term
	var args []*Val
	addParam := func(name string, t types.Type) {
		val := &Val{T: t}
		for _, l := range layoutTE(t, nil) {
			b := Bound(freshName("ax."+name+leafSuffix(l.Path)), l.Sort)
			bs = append(bs, b)
			val.L = append(val.L, b)
		}
		vars[name] = val
		args = append(args, val)
	}
	if callee != nil {
		for _, p := range callee.Params {
			addParam(p.Name(), p.Type())
		}
	} else {
		addParam("recv", types.NewInterfaceType(nil, nil))
		for i := 0; i < sig.Params().Len(); i++ {
			n := sig.Params().At(i).Name()
			if n == "" || n == "_" {
				n = fmt.Sprintf("p%d", i)
			}
			addParam(n, sig.Params().At(i).Type())
		}
	}
	var rt types.Type = sig.Results()
	if sig.Results().Len() == 1 {
		rt = sig.Results().At(0).Type()
	}
	res := v.pureResult(spec, cs, callee, sig, args, nil, rt)
	env := &SpecEnv{run: r, st: st, old: st, cs: cs, mode: "pre", vars: vars, fn: callee}
	env.result = res
	env = env.with(r.resultVars(spec, sig, res, nil))
	var pre []*Term
	for _, c := range spec.ClausesOf("requires") {
		pre = append(pre, env.evalBool(c.Expr))
	}
	var post []*Term
	for _, c := range ens {
		post = append(post, env.evalBool(c.Expr))
	}
	body := Implies(And(pre...), And(post...))
	if len(bs) == 0 {
		return body
	}
	q := Forall(bs, body)
	if q.Kind == KQuant {
		q.Pats = [][]*Term{{res.L[0]}}
	}
	return q
}

func (v *Verifier) pureAxiom(name string) *Term {
	if t, ok := v.pureAxC[name]; ok {
		return t
	}
	b, ok := v.pureAx[name]
	if !ok {
		return nil
	}
	v.pureAxC[name] = True // cut recursion
	t := b()
	v.pureAxC[name] = t
	return t
}

// pureGoCall evaluates a call to a real Go function with a `pure` contract inside a specification.
func (v *Verifier) pureGoCall(e *SpecEnv, x *SExpr, pkg *types.Package, name string, args []*SExpr) *Val {
	if pkg == nil {
		return nil
	}
	cs := v.contracts[pkg.Path()]
	if cs == nil {
		return nil
	}
	spec, ok := cs.Funcs[name]
	if !ok || !spec.Has("pure") {
		return nil
	}
	fn := v.lookupFunc(pkg.Path(), name)
	if fn == nil {
		e.fail(x, "pure function %s.%s not found in the code", pkg.Name(), name)
	}
	avs := e.evalArgs(args)
	if len(avs) != len(fn.Params) {
		e.fail(x, "pure function %s expects %d arguments", name, len(fn.Params))
	}
	for i := range avs {
		avs[i] = e.adapt(x, avs[i], fn.Params[i].Type())
	}
	var rt types.Type = fn.Signature.Results()
	if fn.Signature.Results().Len() == 1 {
		rt = fn.Signature.Results().At(0).Type()
	}
	return v.pureResult(spec, cs, fn, fn.Signature, avs, nil, rt)
}

// ---------- axioms for a query ----------

var strAxiomsCache []*Term

func (v *Verifier) axiomsFor(r *Run, terms []*Term, extra []*Term) []*Term {
	seenUF := map[string]bool{}
	var out []*Term
	collect := func(ts []*Term) []string {
		c := newSigCollector()
		for _, t := range ts {
			c.walk(t)
		}
		var fresh []string
		for n := range c.ufs {
			if !seenUF[n] {
				seenUF[n] = true
				fresh = append(fresh, n)
			}
		}
		sort.Strings(fresh)
		return fresh
	}
	// candidate spec-level axioms
	type cand struct {
		t    *Term
		syms map[string]bool
		used bool
	}
	var cands []*cand
	var csNames []string
	for p := range v.contracts {
		csNames = append(csNames, p)
	}
	sort.Strings(csNames)
	for _, p := range csNames {
		cs := v.contracts[p]
		for _, l := range cs.Lemmas {
			if !l.IsAxiom {
				continue
			}
			t := v.lemmaTerm(l)
			c := newSigCollector()
			c.walk(t)
			syms := map[string]bool{}
			own := map[string]bool{}
			for n := range c.ufs {
				if strings.HasPrefix(n, "spec!") || strings.HasPrefix(n, "pure!") {
					syms[n] = true
					if strings.HasPrefix(n, "spec!"+cs.Label+".") || strings.HasPrefix(n, "pure!"+cs.Label+".") {
						own[n] = true
					}
				}
			}
			// an axiom is about the symbols of its own package: it is relevant when one of THOSE occurs in the query
			// (an axiom defining compiler.rep in terms of ddptypes.tnorm says nothing to a query without rep)
			if len(own) > 0 {
				syms = own
			}
			cands = append(cands, &cand{t: t, syms: syms})
		}
	}
	work := collect(append(append([]*Term(nil), terms...), extra...))
	for len(work) > 0 {
		var added []*Term
		for _, n := range work {
			if strings.HasPrefix(n, "pure!") {
				base := n
				// strip leaf suffix
				for b := range v.pureAx {
					if n == b || strings.HasPrefix(n, b+"!") {
						base = b
					}
				}
				for _, ax := range v.implLinks(base) {
					dup := false
					for _, o := range out {
						if o == ax {
							dup = true
						}
					}
					if !dup {
						out = append(out, ax)
						added = append(added, ax)
					}
				}
				if ax := v.pureAxiom(base); ax != nil && !ax.IsTrue() {
					dup := false
					for _, o := range out {
						if o == ax {
							dup = true
						}
					}
					if !dup {
						out = append(out, ax)
						added = append(added, ax)
					}
				}
			}
			for _, c := range cands {
				if !c.used && c.syms[n] {
					c.used = true
					out = append(out, c.t)
					added = append(added, c.t)
				}
			}
		}
		work = collect(added)
	}
	// counting functions
	for round := 0; round < 1; round++ {
		ca := countAxioms(append(append(append([]*Term(nil), terms...), extra...), out...))
		n0 := len(out)
		for _, a := range ca {
			dup := false
			for _, o := range out {
				if o.String() == a.String() {
					dup = true
					break
				}
			}
			if !dup {
				out = append(out, a)
			}
		}
		if len(out) == n0 {
			break
		}
	}
	// theory axioms
	all := append(append(append([]*Term(nil), terms...), extra...), out...)
	c := newSigCollector()
	for _, t := range all {
		c.walk(t)
	}
	if _, ok := c.ufs["strlen"]; ok {
		s := Bound("ax.s", SStr)
		out = append(out, Forall([]*Term{s}, Ge(App("strlen", SInt, s), IntLit(0))))
	}
	if _, ok := c.ufs["strlt"]; ok {
		a, b, cc := Bound("ax.a", SStr), Bound("ax.b", SStr), Bound("ax.c", SStr)
		lt := func(x, y *Term) *Term { return App("strlt", SBool, x, y) }
		out = append(out,
			Forall([]*Term{a}, Not(lt(a, a))),
			Forall([]*Term{a, b, cc}, Implies(And(lt(a, b), lt(b, cc)), lt(a, cc))),
			Forall([]*Term{a, b}, Or(App("=", SBool, a, b), lt(a, b), lt(b, a))))
	}
	// heap closure: every reference stored in the INITIAL heap refers to an object that already exists
	// (it is not above the initial allocation watermark)
	for _, n := range sortedKeys(c.vars) {
		var top0 *Term
		if strings.HasPrefix(n, "H0!") {
			if !refComps[strings.TrimPrefix(n, "H0!")] {
				continue
			}
			top0 = Var("alloc0", SInt)
		} else if strings.HasPrefix(n, "Hv!") {
			hvTopMu.Lock()
			inf, ok := hvTop[n]
			hvTopMu.Unlock()
			if !ok || !refComps[inf.comp] {
				continue
			}
			top0 = inf.top
		} else if m := epochVarRe.FindStringSubmatch(n); m != nil {
			hvTopMu.Lock()
			t, ok := epochTop[atoi(m[1])]
			hvTopMu.Unlock()
			if !ok || !refComps[m[2]] {
				continue
			}
			top0 = t
		} else {
			continue
		}
		srt := c.vars[n]
		hv := Var(n, srt)
		if srt == ArrSort(SInt, SInt) {
			r := Bound("ax.r", SInt)
			out = append(out, Forall([]*Term{r}, And(Ge(App("select", SInt, hv, r), IntLit(0)), Le(App("select", SInt, hv, r), top0))))
		} else if srt == ArrSort(SInt, ArrSort(SInt, SInt)) {
			r, i := Bound("ax.r", SInt), Bound("ax.i", SInt)
			cell := App("select", SInt, App("select", ArrSort(SInt, SInt), hv, r), i)
			out = append(out, Forall([]*Term{r, i}, And(Ge(cell, IntLit(0)), Le(cell, top0))))
		}
	}
	// addresses of fields and slice elements are never nil
	for _, n := range sortedKeys(c.ufs) {
		if strings.HasPrefix(n, "elemptr!") || strings.HasPrefix(n, "fieldptr!") {
			u := c.ufs[n]
			var bs []*Term
			for i, s := range u.Args {
				bs = append(bs, Bound(fmt.Sprintf("ax.p%d", i), s))
			}
			out = append(out, Forall(bs, Gt(App(n, SInt, bs...), IntLit(0))))
			if strings.HasPrefix(n, "elemptr!") && len(bs) == 2 {
				if _, ok := c.ufs["elemidx"]; ok {
					out = append(out, Forall(bs, App("=", SBool, App("elemidx", SInt, App(n, SInt, bs...)), bs[1])))
				}
			}
		}
	}
	if _, ok := c.ufs["strcat"]; ok {
		a, b := Bound("ax.a", SStr), Bound("ax.b", SStr)
		out = append(out, Forall([]*Term{a, b}, App("=", SBool, App("strlen", SInt, App("strcat", SStr, a, b)),
			App("+", SInt, App("strlen", SInt, a), App("strlen", SInt, b)))))
		DeclareUF("strlen", SInt, SStr)
	}
	if _, ok := c.ufs["substr"]; ok {
		a, lo, hi := Bound("ax.a", SStr), Bound("ax.lo", SInt), Bound("ax.hi", SInt)
		out = append(out, Forall([]*Term{a, lo, hi}, Implies(And(Le(IntLit(0), lo), Le(lo, hi), Le(hi, App("strlen", SInt, a))),
			App("=", SBool, App("strlen", SInt, App("substr", SStr, a, lo, hi)), App("-", SInt, hi, lo)))))
		DeclareUF("strlen", SInt, SStr)
	}
	if _, ok := c.ufs["str_of_rune"]; ok {
		rr := Bound("ax.r", SInt)
		sl := App("strlen", SInt, App("str_of_rune", SStr, rr))
		out = append(out, Forall([]*Term{rr}, And(Le(IntLit(1), sl), Le(sl, IntLit(4)),
			Implies(And(Le(IntLit(0), rr), Lt(rr, IntLit(128))), App("=", SBool, sl, IntLit(1))))))
		DeclareUF("strlen", SInt, SStr)
	}
	if _, ok := c.ufs["strlen"]; !ok {
		// the axioms above may have introduced strlen
		c2 := newSigCollector()
		for _, t := range out {
			c2.walk(t)
		}
		if _, ok2 := c2.ufs["strlen"]; ok2 {
			s := Bound("ax.s", SStr)
			out = append(out, Forall([]*Term{s}, Ge(App("strlen", SInt, s), IntLit(0))))
		}
	}
	var lits []string
	for n := range c.ufs {
		if strings.HasPrefix(n, "strlit!") {
			lits = append(lits, n)
		}
	}
	sort.Strings(lits)
	if len(lits) > 1 {
		var ts []*Term
		for _, n := range lits {
			ts = append(ts, App(n, SStr))
		}
		out = append(out, App("distinct", SBool, ts...))
	}
	if _, ok := c.ufs["strlen"]; ok {
		for _, n := range lits {
			out = append(out, App("=", SBool, App("strlen", SInt, App(n, SStr)), IntLit(int64(len(strLitRev[n])))))
		}
	}
	if _, ok := c.ufs["strlt"]; ok {
		for i, a := range lits {
			for j, b := range lits {
				if i != j {
					out = append(out, Eq(App("strlt", SBool, App(a, SStr), App(b, SStr)), BoolLit(strLitRev[a] < strLitRev[b])))
				}
			}
		}
	}
	return out
}

var lemmaTermCache = map[*Lemma]*Term{}

func (v *Verifier) lemmaTerm(l *Lemma) *Term {
	if t, ok := lemmaTermCache[l]; ok {
		return t
	}
	saved := immutableComps
	v.activateImmutables(l.Pkg)
	defer func() { immutableComps = saved }()
	r := &Run{v: v, fname: "lemma:" + l.Name, assumptions: map[string]bool{}, trustedUsed: map[string]bool{}, maxPaths: 1}
	st := newState()
	env := &SpecEnv{run: r, st: st, old: st, cs: l.Pkg, mode: "lemma", vars: map[string]*Val{}}
	t := env.evalBool(l.Expr)
	lemmaTermCache[l] = t
	return t
}

// ---------- verifying one function ----------

type FuncResult struct {
	Name        string
	Obligs      []*Oblig
	Unsupported []string
	Assumptions []string
	Trusted     []string
	Paths       int
	RetPaths    int
	CoverHyps   []*Term
	Err         string
	Sweep       bool
}

func (v *Verifier) VerifyFunc(cs *ContractSet, spec *FuncSpec) (res *FuncResult) {
	fname := cs.Label + "." + spec.Target
	res = &FuncResult{Name: fname, Sweep: spec.Has("sweep")}
	v.activateImmutables(cs)
	fn := v.lookupFunc(cs.PkgPath, spec.Target)
	if fn == nil {
		res.Err = "target function not found in the code"
		return res
	}
	if fn.Blocks == nil {
		res.Err = "target function has no body"
		return res
	}
	r := &Run{v: v, fn: fn, fname: fname, spec: spec, assumptions: map[string]bool{}, trustedUsed: map[string]bool{}, maxPaths: 3000}
	if mp, ok := spec.Flags["maxpaths"]; ok {
		r.maxPaths = atoi(mp)
	}
	r.safe = spec.Has("safe")
	r.siteNames = spec.Has("sweep")
	if kinds := strings.Fields(spec.Flags["safe"]); len(kinds) > 0 {
		r.safeKinds = map[string]bool{}
		for _, k := range kinds {
			r.safeKinds[k] = true
		}
	}
	if m, ok := spec.Flags["mode"]; ok && strings.Contains(m, "overflow") {
		r.overflow = true
	}
	if strings.HasSuffix(cs.PkgPath, "/lib/runtime/ddprt") {
		// extracted C: exact conversions, integer type ranges, and every arithmetic overflow is an obligation
		r.cmode = true
		if m := spec.Flags["mode"]; !strings.Contains(m, "wrap") {
			r.overflow = true
		}
	}
	if !r.overflow {
		r.note("machine integer arithmetic treated as mathematical in " + fname)
	}
	if !r.safe {
		r.note("absence of implicit panics (nil, bounds, failed assertions) assumed in " + fname)
	}
	defer func() {
		if rec := recover(); rec != nil {
			switch e := rec.(type) {
			case unsupportedErr:
				res.Unsupported = append(res.Unsupported, e.msg)
			case specErr:
				res.Err = "specification error: " + e.msg
			default:
				panic(rec)
			}
		}
		// vacuity guard: a label that no path ever reaches (the named call is inlined, renamed or gone) would make
		// every at(L, e) silently read the current state
		if res.Err == "" && len(res.Unsupported) == 0 {
			for _, c := range spec.Clauses {
				if c.Kind != "at" {
					continue
				}
				if f := strings.Fields(c.Text); len(f) > 0 && !r.labels[f[0]] {
					res.Unsupported = append(res.Unsupported, "label "+f[0]+" ("+c.Text+") is reached on no path: clauses that mention it would be vacuous")
				}
			}
		}
		res.Obligs = r.obligs
		res.Paths = r.paths + 1
		res.RetPaths = r.retPaths
		for a := range r.assumptions {
			res.Assumptions = append(res.Assumptions, a)
		}
		sort.Strings(res.Assumptions)
		for a := range r.trustedUsed {
			res.Trusted = append(res.Trusted, a)
		}
		sort.Strings(res.Trusted)
	}()
	// case splits ("cases EXPR in {v1, v2, ...}"): one symbolic execution per combination, with EXPR == v as a known fact
	type caseSplit struct {
		expr *SExpr
		vals []*SExpr
		text string
	}
	var splits []caseSplit
	for _, c := range spec.Clauses {
		if c.Kind != "cases" {
			continue
		}
		i := strings.Index(c.Text, " in ")
		lb, rb := strings.Index(c.Text, "{"), strings.LastIndex(c.Text, "}")
		if i < 0 || lb < i || rb < lb {
			res.Err = "cases EXPR in {v1, v2, ...}"
			return res
		}
		ex, err := ParseSExpr(strings.TrimSpace(c.Text[:i]))
		if err != nil {
			res.Err = err.Error()
			return res
		}
		cs0 := caseSplit{expr: ex, text: strings.TrimSpace(c.Text[:i])}
		for _, vtxt := range strings.Split(c.Text[lb+1:rb], ",") {
			ve, err := ParseSExpr(strings.TrimSpace(vtxt))
			if err != nil {
				res.Err = err.Error()
				return res
			}
			cs0.vals = append(cs0.vals, ve)
		}
		splits = append(splits, cs0)
	}
	combos := [][]int{{}}
	for _, sp := range splits {
		var next [][]int
		for _, c := range combos {
			for vi := range sp.vals {
				next = append(next, append(append([]int(nil), c...), vi))
			}
		}
		combos = next
	}
	for _, combo := range combos {
		st := newState()
		fr := &Frame{fn: fn, regs: map[ssa.Value]*Val{}, cellOf: map[*ssa.Alloc]int{}, spec: spec, cs: cs, params: map[string]*Val{},
			loops: analyseLoops(fn), free: map[*ssa.FreeVar]*Val{}}
		for _, p := range fn.Params {
			val := freshVal(p.Type(), "in."+p.Name(), nil)
			fr.regs[p] = val
			fr.params[p.Name()] = val
			r.assumeWF(st, val, nil)
			r.assumeRanges(st, val)
		}
		for _, fv := range fn.FreeVars {
			// captured variables are pointers to the enclosing function's variables: model as boxes
			val := freshVal(fv.Type(), "free."+fv.Name(), nil)
			st.assume(Gt(val.L[0], IntLit(0)))
			fr.free[fv] = val
		}
		env := r.specEnv(st, fr, "pre")
		env.old = st
		for _, c := range spec.ClausesOf("requires") {
			st.assume(env.evalBool(c.Expr))
		}
		for _, c := range spec.ClausesOf("assume") {
			st.assume(env.evalBool(c.Expr))
			r.note("assume clause in contract of " + fname + ": " + c.Text)
		}
		// "uses L1, L2": lemmas of the package (each one a separately proved obligation) as hypotheses
		for _, c := range spec.ClausesOf("uses") {
			for _, name := range strings.Split(c.Text, ",") {
				name = strings.TrimSpace(name)
				found := false
				for _, l := range cs.Lemmas {
					if l.Name == name {
						st.assume(v.lemmaTerm(l))
						found = true
					}
				}
				if j := strings.Index(name, "."); j > 0 && !found {
					// pkg.Lemma: a lemma of another package's contracts
					for _, ocs := range v.contracts {
						if ocs.Label != name[:j] {
							continue
						}
						for _, l := range ocs.Lemmas {
							if l.Name == name[j+1:] {
								st.assume(v.lemmaTerm(l))
								found = true
							}
						}
					}
				}
				if !found {
					panic(specErr{msg: "uses: unknown lemma " + name})
				}
			}
		}
		fr.entry = st.clone()
		res.CoverHyps = append([]*Term(nil), st.pc...)
		fr.ret = func(fr *Frame, st2 *State, rv *Val) {
			r.retPaths++
			penv := r.specEnv(st2, fr, "post")
			penv.result = rv
			penv = penv.with(r.resultVars(spec, fn.Signature, rv, nil))
			for _, c := range spec.ClausesOf("ensures") {
				g := penv.evalBool(c.Expr)
				r.oblige(st2, fmt.Sprintf("ensures%d", c.Ord), c.Props, fmt.Sprintf("return in block %d (%s)", fr.retBlock.Index, fr.retBlock.Comment), g)
				last := r.obligs[len(r.obligs)-1]
				last.Env = penv
				last.Spec = spec
				last.Group = fmt.Sprintf("%s#ret%d", fname, r.retPaths)
			}
			for _, c := range spec.ClausesOf("calls") {
				called := st2.calls[c.Text] > 0
				r.oblige(st2, fmt.Sprintf("calls%d(%s)", c.Ord, c.Text), c.Props, fmt.Sprintf("return in block %d (%s)", fr.retBlock.Index, fr.retBlock.Comment), Implies(penv.evalBool(c.Expr), BoolLit(called)))
			}
			r.frameObligations(st2, fr, spec)
		}
		skip := false
		r.caseTag = ""
		for si, vi := range combo {
			r.caseTag += fmt.Sprintf("[%s=%s]", splits[si].text, splits[si].vals[vi].String())
			cenv := r.specEnv(st, fr, "pre")
			cenv.old = st
			lhs := cenv.eval(splits[si].expr)
			rhs := cenv.eval(splits[si].vals[vi])
			eqt := cenv.equal(splits[si].expr, lhs, rhs)
			st.assume(eqt)
			if st.infeasible() {
				skip = true
			}
		}
		// re-evaluate the precondition under the case facts: inadmissible combinations are skipped
		for _, p := range st.pc {
			if st.decide(p).IsFalse() {
				skip = true
			}
		}
		if skip {
			continue
		}
		fr.entry = st.clone()
		r.execBlock(st, fr, fn.Blocks[0], nil)
	}
	// requested safety kinds exist as clauses even when the function has no such site (left)
	for k := range r.safeKinds {
		found := false
		for _, o := range r.obligs {
			if o.Clause == "safe."+k {
				found = true
			}
		}
		if !found && !r.siteNames {
			r.obligs = append(r.obligs, &Oblig{Func: fname, Clause: "safe." + k, Props: spec.Props, Goal: True, Trivial: true, Sub: "no such site"})
		}
	}
	// the nopanic clause exists even when no explicit panic is reachable at all
	if spec.Has("nopanic") || (spec.Has("safe") && len(r.safeKinds) == 0) {
		found := false
		for _, o := range r.obligs {
			if o.Clause == "nopanic" {
				found = true
			}
		}
		if !found {
			r.obligs = append(r.obligs, &Oblig{Func: fname, Clause: "nopanic", Props: spec.Props, Goal: True, Trivial: true, Sub: "no explicit panic reachable"})
		}
	}
	return res
}

func (r *Run) assumeRanges(st *State, v *Val) {
	if !r.overflow {
		return
	}
	for i, l := range layoutTE(v.T, nil) {
		if l.Sort != SInt || l.T == nil {
			continue
		}
		if b, ok := types.Unalias(l.T).Underlying().(*types.Basic); ok && b.Info()&types.IsInteger != 0 {
			lo, hi := intRange(b)
			if lo != nil {
				st.assume(And(Le(lo, v.L[i]), Le(v.L[i], hi)))
			}
		}
		if _, ok := types.Unalias(l.T).Underlying().(*types.Slice); ok && (strings.HasSuffix(l.Path, "#len") || strings.HasSuffix(l.Path, "#cap") || strings.HasSuffix(l.Path, "#off")) {
			st.assume(Le(v.L[i], IntLit(1<<62)))
		}
	}
}

// VerifyLemma builds the obligation for a lemma.
func (v *Verifier) VerifyLemma(l *Lemma) (o *Oblig, err string) {
	defer func() {
		if rec := recover(); rec != nil {
			switch e := rec.(type) {
			case specErr:
				err = "specification error: " + e.msg
			case unsupportedErr:
				err = "unsupported: " + e.msg
			default:
				panic(rec)
			}
		}
	}()
	v.activateImmutables(l.Pkg)
	t := v.lemmaTerm(l)
	o = &Oblig{Func: l.Pkg.Label, Clause: "lemma." + l.Name, Props: l.Props, Goal: t}
	for _, u := range l.Uses {
		found := false
		for _, cs := range v.contracts {
			for _, l2 := range cs.Lemmas {
				if l2.Name == u && (cs == l.Pkg || strings.Contains(u, ".")) {
					o.Hyps = append(o.Hyps, v.lemmaTerm(l2))
					found = true
				}
			}
		}
		if !found {
			return nil, "lemma " + l.Name + " uses unknown lemma " + u
		}
	}
	return o, ""
}

// implLinks: a pure INTERFACE method "(I).M" is an uninterpreted function of the boxed receiver. For every type T of
// the module that implements I and whose own method M is under a contract marked pure, the link
//     forall r, args :: (I).M(box_T(r), args) == (T).M(r, args)
// holds by Go's dynamic dispatch; (T).M's axiom is its contract, proved against its body.
func (v *Verifier) implLinks(base string) []*Term {
	if v.linkC == nil {
		v.linkC = map[string][]*Term{}
	}
	if ls, ok := v.linkC[base]; ok {
		return ls
	}
	v.linkC[base] = nil
	var ispec *FuncSpec
	for _, cs := range v.contracts {
		for _, fs := range cs.Funcs {
			if fs.Has("pure") && v.pureUFName(fs) == base {
				ispec = fs
			}
		}
	}
	if ispec == nil || !strings.HasPrefix(ispec.Target, "(") || strings.HasPrefix(ispec.Target, "(*") {
		return nil
	}
	i := strings.Index(ispec.Target, ").")
	if i < 0 {
		return nil
	}
	iname, mname := ispec.Target[1:i], ispec.Target[i+2:]
	ip := v.pkgByPath[ispec.Pkg.PkgPath]
	if ip == nil {
		return nil
	}
	io := ip.Types.Scope().Lookup(iname)
	if io == nil {
		return nil
	}
	iface, ok := io.Type().Underlying().(*types.Interface)
	if !ok {
		return nil
	}
	var out []*Term
	var paths []string
	for pth := range v.pkgByPath {
		paths = append(paths, pth)
	}
	sort.Strings(paths)
	for _, pth := range paths {
		p := v.pkgByPath[pth]
		cs := v.contracts[pth]
		if cs == nil || !strings.HasPrefix(pth, modPath) {
			continue
		}
		for _, name := range p.Types.Scope().Names() {
			tn, ok := p.Types.Scope().Lookup(name).(*types.TypeName)
			if !ok || tn.IsAlias() {
				continue
			}
			named, ok := tn.Type().(*types.Named)
			if !ok || named.TypeParams().Len() > 0 {
				continue
			}
			if _, isI := named.Underlying().(*types.Interface); isI {
				continue
			}
			for _, recv := range []types.Type{named, types.NewPointer(named)} {
				if !types.Implements(recv, iface) {
					continue
				}
				if _, isPtr := recv.(*types.Pointer); !isPtr {
					// value receiver: *T implements as well; handled by the pointer case only if T does not
				}
				sel := types.NewMethodSet(recv).Lookup(tn.Pkg(), mname)
				if sel == nil {
					continue
				}
				mfn := v.prog.MethodValue(sel)
				if mfn == nil || mfn.Synthetic != "" {
					continue
				}
				cspec, ccs := v.specFor(mfn)
				if cspec == nil || !cspec.Has("pure") {
					continue
				}
				// bound variables: receiver leaves + parameter leaves
				var bs []*Term
				rv := &Val{T: recv}
				for _, l := range layoutTE(recv, nil) {
					b := Bound(freshName("lk.r"+leafSuffix(l.Path)), l.Sort)
					bs = append(bs, b)
					rv.L = append(rv.L, b)
				}
				sig := mfn.Signature
				cargs := []*Val{rv}
				iargs := []*Val{{T: io.Type(), L: []*Term{boxAny(rv, nil)}}}
				for k := 0; k < sig.Params().Len(); k++ {
					pt := sig.Params().At(k).Type()
					a := &Val{T: pt}
					for _, l := range layoutTE(pt, nil) {
						b := Bound(freshName("lk.p"+leafSuffix(l.Path)), l.Sort)
						bs = append(bs, b)
						a.L = append(a.L, b)
					}
					cargs = append(cargs, a)
					iargs = append(iargs, a)
				}
				var rt types.Type = sig.Results()
				if sig.Results().Len() == 1 {
					rt = sig.Results().At(0).Type()
				}
				cres := v.pureResult(cspec, ccs, mfn, sig, cargs, nil, rt)
				ires := v.pureResult(ispec, ispec.Pkg, nil, sig, iargs, nil, rt)
				var eqs []*Term
				for k := range cres.L {
					if k < len(ires.L) {
						eqs = append(eqs, Eq(ires.L[k], cres.L[k]))
					}
				}
				if len(eqs) > 0 {
					out = append(out, Forall(bs, And(eqs...)))
				}
			}
		}
	}
	v.linkC[base] = out
	return out
}

// frameObligations: a "modifies" clause is a promise to callers (they keep everything else across the call), so it
// is an obligation of the function itself: at every return, each heap component that differs from its entry value
// and is not covered by the clause must agree with the entry heap on every object that existed at entry
// (objects allocated by the call are the function's own).
func (r *Run) frameObligations(st *State, fr *Frame, spec *FuncSpec) {
	if len(spec.ClausesOf("modifies")) == 0 {
		return // no promise: callers havoc the whole heap
	}
	allowed, all := r.specModifies(spec)
	if all {
		return
	}
	ok := func(name string) bool {
		if immutableComp(name) {
			return true
		}
		for c := range allowed {
			if name == c || strings.HasPrefix(name, c+".") || strings.HasPrefix(name, c+"#") {
				return true
			}
		}
		return false
	}
	where := fmt.Sprintf("return in block %d (%s)", fr.retBlock.Index, fr.retBlock.Comment)
	entry := fr.entry
	if st.epoch != entry.epoch {
		r.oblige(st, "frame(*)", spec.Props, where+": a call without a frame havocs the heap", False)
		return
	}
	var names []string
	for n := range st.heap {
		names = append(names, n)
	}
	sort.Strings(names)
	top0 := entry.top
	for _, n := range names {
		now := st.heap[n]
		if ok(n) {
			continue
		}
		before, had := entry.heap[n]
		if !had {
			// first touched after entry: its entry value is the symbol the entry state would have created
			before = entry.clone().comp(n, now.Sort)
		}
		if now == before || now.String() == before.String() {
			continue
		}
		var goal *Term
		if now.Sort.IsArray() && strings.HasPrefix(string(now.Sort), "(Array Int ") && !strings.HasPrefix(n, "g:") {
			rr := Bound(freshName("fr.r"), SInt)
			elemSort := Sort(strings.TrimSuffix(strings.TrimPrefix(string(now.Sort), "(Array Int "), ")"))
			goal = Forall([]*Term{rr}, Implies(And(Ge(rr, IntLit(0)), Le(rr, top0)),
				App("=", SBool, App("select", elemSort, now, rr), App("select", elemSort, before, rr))))
		} else {
			goal = App("=", SBool, now, before)
		}
		r.oblige(st, "frame("+n+")", spec.Props, where, goal)
	}
	// components havocked through a callee's frame and never read here
	var hvs []string
	for p := range st.hv {
		hvs = append(hvs, p)
	}
	sort.Strings(hvs)
	for _, p := range hvs {
		if e0, had := entry.hv[p]; had && e0 == st.hv[p] {
			continue
		}
		if ok(p) {
			continue
		}
		if _, read := st.heap[p]; read {
			continue // handled above
		}
		r.oblige(st, "frame("+p+")", spec.Props, where+": havocked by a callee", False)
	}
}
