package main

// Engine-level quantifier instantiation: skolemise the goal and add instances of universally
// quantified hypotheses at the skolem constants (+-1) and at the indices at which arrays defined
// by append/copy are read. Instances are consequences of the hypotheses, so adding them is sound;
// the quantified hypotheses stay in the query as well.

import (
	"fmt"
	"os"
	"strings"
	"sync"
)

var instMu sync.Mutex

const maxInstPerHyp = 160

// ground select-equalities of the query being prepared (matching candidates for instantiate)
var instKnown map[string][]*Term

// skolemize strips universal quantifiers from the goal (introducing constants) and moves
// antecedents of implications into *hyps.
func skolemize(goal *Term, sks *[]*Term, hyps *[]*Term) *Term {
	switch {
	case goal.Kind == KQuant && goal.Op == "forall":
		m := map[string]*Term{}
		for _, b := range goal.Binders {
			sk := Var(freshName("sk."+strings.TrimPrefix(b.Op, "q.")), b.Sort)
			m[b.Op] = sk
			*sks = append(*sks, sk)
		}
		return skolemize(Subst(goal.Args[0], m), sks, hyps)
	case goal.Kind == KApp && goal.Op == "not" && goal.Args[0].Kind == KQuant && goal.Args[0].Op == "exists":
		ex := goal.Args[0]
		m := map[string]*Term{}
		for _, b := range ex.Binders {
			sk := Var(freshName("sk."+strings.TrimPrefix(b.Op, "q.")), b.Sort)
			m[b.Op] = sk
			*sks = append(*sks, sk)
		}
		return Not(Subst(ex.Args[0], m))
	case goal.Kind == KApp && goal.Op == "and":
		var cs []*Term
		for _, a := range goal.Args {
			// antecedents found below a conjunction must stay local to their conjunct
			var local []*Term
			c := skolemize(a, sks, &local)
			cs = append(cs, Implies(And(local...), c))
		}
		return And(cs...)
	case goal.Kind == KApp && goal.Op == "=>":
		*hyps = append(*hyps, goal.Args[0])
		return skolemize(goal.Args[1], sks, hyps)
	}
	return goal
}

// instantiate returns instances of the universally quantified parts of t (in positive position).
func instantiate(t *Term, cands map[Sort][]*Term, arrIdx map[string][]*Term) *Term {
	if t.Kind == KApp && t.Op == "not" && t.Args[0].Kind == KQuant && t.Args[0].Op == "exists" {
		ex := t.Args[0]
		t = &Term{Kind: KQuant, Op: "forall", Binders: ex.Binders, Args: []*Term{Not(ex.Args[0])}, Sort: SBool}
	}
	switch {
	case t.Kind == KQuant && t.Op == "forall":
		// definitional arrays (append/copy): single binder, instantiate at the read indices
		if len(t.Binders) == 1 && t.Binders[0].Sort == SInt {
			if arr := definedArray(t); arr != "" {
				var out []*Term
				for _, idx := range arrIdx[arr] {
					out = append(out, Subst(t.Args[0], map[string]*Term{t.Binders[0].Op: idx}))
				}
				return And(out...)
			}
		}
		if len(t.Binders) > 3 {
			return True
		}
		var tuples [][]*Term
		tuples = append(tuples, nil)
		for _, b := range t.Binders {
			cs := cands[b.Sort]
			if len(t.Binders) == 1 && b.Sort == SInt && instKnown != nil && os.Getenv("VGO_NO_MATCH") == "" {
				cs = append(append([]*Term(nil), cs...), selectMatchCands(instKnown, t.Args[0], b.Op)...)
			}
			if len(cs) == 0 {
				return True
			}
			var next [][]*Term
			for _, tu := range tuples {
				for _, c := range cs {
					next = append(next, append(append([]*Term(nil), tu...), c))
				}
			}
			tuples = next
			if len(tuples) > maxInstPerHyp*8 {
				return True
			}
		}
		if len(tuples) > maxInstPerHyp {
			tuples = tuples[:maxInstPerHyp]
		}
		var out []*Term
		for _, tu := range tuples {
			m := map[string]*Term{}
			for i, b := range t.Binders {
				m[b.Op] = tu[i]
			}
			out = append(out, instantiateInner(Subst(t.Args[0], m), cands, arrIdx))
		}
		return And(out...)
	case t.Kind == KApp && t.Op == "and":
		var out []*Term
		for _, a := range t.Args {
			out = append(out, instantiate(a, cands, arrIdx))
		}
		return And(out...)
	case t.Kind == KApp && t.Op == "ite" && t.Sort == SBool:
		a := instantiate(t.Args[1], cands, arrIdx)
		b := instantiate(t.Args[2], cands, arrIdx)
		if a.IsTrue() && b.IsTrue() {
			return True
		}
		return Ite(t.Args[0], a, b)
	case t.Kind == KApp && t.Op == "=>":
		c := instantiate(t.Args[1], cands, arrIdx)
		if c.IsTrue() {
			return True
		}
		return Implies(t.Args[0], c)
	}
	return True
}

// instantiateInner keeps the quantifier-free part of an instance and instantiates nested foralls.
func instantiateInner(t *Term, cands map[Sort][]*Term, arrIdx map[string][]*Term) *Term {
	return t
}

// definedArray recognises "forall j. select(A, j) = ..." / "forall j. guard => select(A, j) = ..."
// for the arrays introduced by append and copy.
func definedArray(q *Term) string {
	body := q.Args[0]
	if body.Kind == KApp && body.Op == "=>" {
		body = body.Args[1]
	}
	if body.Kind == KApp && body.Op == "=" && body.Args[0].Kind == KApp && body.Args[0].Op == "select" {
		a := body.Args[0].Args[0]
		if a.Kind == KVar && (strings.HasPrefix(a.Op, "appcells!") || strings.HasPrefix(a.Op, "copycells!")) {
			return a.Op
		}
	}
	return ""
}

// collectArrayReads records the index terms at which the given arrays are read (outside binders).
func collectArrayReads(t *Term, out map[string][]*Term, seen map[string]bool, bound map[string]bool) {
	switch t.Kind {
	case KApp:
		if t.Op == "select" && t.Args[0].Kind == KVar && (strings.HasPrefix(t.Args[0].Op, "appcells!") || strings.HasPrefix(t.Args[0].Op, "copycells!")) {
			idx := t.Args[1]
			if !mentionsBound(idx, bound) {
				k := t.Args[0].Op + "@" + idx.String()
				if !seen[k] {
					seen[k] = true
					out[t.Args[0].Op] = append(out[t.Args[0].Op], idx)
				}
			}
		}
		for _, a := range t.Args {
			collectArrayReads(a, out, seen, bound)
		}
	case KQuant:
		nb := map[string]bool{}
		for k := range bound {
			nb[k] = true
		}
		for _, b := range t.Binders {
			nb[b.Op] = true
		}
		collectArrayReads(t.Args[0], out, seen, nb)
	}
}

func mentionsBound(t *Term, bound map[string]bool) bool {
	switch t.Kind {
	case KBound:
		return true
	case KApp:
		for _, a := range t.Args {
			if mentionsBound(a, bound) {
				return true
			}
		}
	case KQuant:
		return true
	}
	return false
}

// prepareQuery skolemises the goal and adds hypothesis instances.
func prepareQuery(q *Query) {
	if q.Goal == nil {
		return
	}
	var sks []*Term
	var moved []*Term
	q.Goal = skolemize(q.Goal, &sks, &moved)
	for _, h := range moved {
		// split conjunctions so that each quantified conjunct can be instantiated
		if h.Kind == KApp && h.Op == "and" {
			q.Hyps = append(q.Hyps, h.Args...)
		} else {
			q.Hyps = append(q.Hyps, h)
		}
	}
	cands := map[Sort][]*Term{}
	for _, sk := range sks {
		cands[sk.Sort] = append(cands[sk.Sort], sk)
		if sk.Sort == SInt {
			cands[SInt] = append(cands[SInt], Add(sk, IntLit(1)), Sub(sk, IntLit(1)))
		}
	}
	// bounds of quantifier ranges in the hypotheses are further candidates (t and t-1)
	seenC := map[string]bool{}
	for _, c := range cands[SInt] {
		seenC[c.String()] = true
	}
	var bounds []*Term
	for _, h := range q.Hyps {
		collectBounds(h, &bounds)
	}
	for _, b := range bounds {
		for _, c := range []*Term{b, Sub(b, IntLit(1))} {
			if len(cands[SInt]) < 14 && !seenC[c.String()] {
				seenC[c.String()] = true
				cands[SInt] = append(cands[SInt], c)
			}
		}
	}
	// ground (div t c) terms outside quantifiers: indices derived from positions
	var divs []*Term
	seenD := map[string]bool{}
	collectDivs(q.Goal, &divs, seenD)
	for _, h := range q.Hyps {
		collectDivs(h, &divs, seenD)
	}
	for _, d := range divs {
		if len(cands[SInt]) < 18 && !seenC[d.String()] {
			seenC[d.String()] = true
			cands[SInt] = append(cands[SInt], d)
		}
	}
	if len(sks) == 0 {
		// without skolem constants only small literal ranges are enumerated
		var lits []*Term
		for _, c := range cands[SInt] {
			if c.Kind == KLit {
				lits = append(lits, c)
			}
		}
		cands = map[Sort][]*Term{}
		seenC = map[string]bool{}
		if len(lits) > 0 {
			cands[SInt] = lits
			for _, l := range lits {
				seenC[l.String()] = true
			}
		}
	}
	// loop variables (havocked at a loop header) are the positions a loop body talks about
	{
		n := 0
		addLoopVars := func(c *sigCollector, limit int) {
			for _, name := range sortedKeys(c.vars) {
				if c.vars[name] == SInt && strings.HasPrefix(name, "loop") && n < limit {
					v := Var(name, SInt)
					if !seenC[v.String()] {
						seenC[v.String()] = true
						cands[SInt] = append(cands[SInt], v, Add(v, IntLit(1)))
						n++
					}
				}
			}
		}
		// the goal's own loop variables first (the loop being reasoned about), then those of the hypotheses
		cg := newSigCollector()
		cg.walk(q.Goal)
		addLoopVars(cg, 4)
		c := newSigCollector()
		for _, h := range q.Hyps {
			c.walk(h)
		}
		addLoopVars(c, 4)
	}
	if os.Getenv("VGO_DEBUG_INST") != "" {
		fmt.Fprintln(os.Stderr, "INST", q.Name, len(sks), cands[SInt])
	}
	q.Goal = witnessExists(q.Goal, q.Hyps, sks)
	instMu.Lock()
	defer instMu.Unlock()
	instKnown = collectSelectEqs(q.Hyps)
	defer func() { instKnown = nil }()
	var inst []*Term
	harvested := 0
	for round := 0; round < 3; round++ {
		arrIdx := map[string][]*Term{}
		seen := map[string]bool{}
		collectArrayReads(q.Goal, arrIdx, seen, map[string]bool{})
		for _, h := range q.Hyps {
			collectArrayReads(h, arrIdx, seen, map[string]bool{})
		}
		for _, h := range inst {
			collectArrayReads(h, arrIdx, seen, map[string]bool{})
		}
		for k, v := range arrIdx {
			if len(v) > 48 {
				arrIdx[k] = v[:48]
			}
		}
		var next []*Term
		for _, h := range q.Hyps {
			i := instantiate(h, cands, arrIdx)
			if !i.IsTrue() {
				next = append(next, i)
			}
		}
		if len(next) == len(inst) {
			same := true
			for i := range next {
				if next[i].String() != inst[i].String() {
					same = false
					break
				}
			}
			if same {
				break
			}
		}
		inst = next
		// indices at which the new instances read arrays and that are offsets of a skolem constant (e.g. "k - n"
		// after a block move) are where the remaining quantified facts are needed next
		if len(sks) > 0 && len(sks) <= 2 && harvested < 4 && os.Getenv("VGO_NO_HARVEST") == "" {
			skNames := map[string]bool{}
			for _, sk := range sks {
				skNames[sk.Op] = true
			}
			var harvest func(t *Term)
			harvest = func(t *Term) {
				if t.Kind == KQuant {
					return
				}
				if t.Kind == KApp && t.Op == "select" && len(t.Args) == 2 && t.Args[1].Sort == SInt {
					idx := t.Args[1]
					// "k - n" with a symbolic n: the shape a block move (copy with an offset) produces
					if idx.Kind == KApp && idx.Op == "-" && len(idx.Args) == 2 && idx.Args[1].Kind != KLit && mentionsVar(idx.Args[0], skNames) && len(idx.String()) < 200 {
						fv := map[string]*Term{}
						freeBoundVars(idx, map[string]bool{}, fv)
						if len(fv) == 0 && !seenC[idx.String()] && harvested < 4 {
							harvested++
							seenC[idx.String()] = true
							cands[SInt] = append(cands[SInt], idx)
						}
					}
				}
				if t.Kind == KApp {
					for _, a := range t.Args {
						harvest(a)
					}
				}
			}
			for _, h := range inst {
				harvest(h)
			}
		}
	}
	q.Hyps = append(q.Hyps, inst...)
}

func mentionsVar(t *Term, names map[string]bool) bool {
	switch t.Kind {
	case KVar:
		return names[t.Op]
	case KApp:
		for _, a := range t.Args {
			if mentionsVar(a, names) {
				return true
			}
		}
	}
	return false
}

// collectBounds finds ground terms that bound a quantified variable from above: (< q t), (<= q t).
func collectBounds(t *Term, out *[]*Term) {
	switch t.Kind {
	case KQuant:
		collectBoundsIn(t.Args[0], out)
	case KApp:
		for _, a := range t.Args {
			collectBounds(a, out)
		}
	}
}

func collectBoundsIn(t *Term, out *[]*Term) {
	if t.Kind == KApp {
		if (t.Op == "<" || t.Op == "<=") && len(t.Args) == 2 && t.Args[0].Kind == KBound && !mentionsBound(t.Args[1], nil) {
			if t.Args[1].Kind != KLit {
				*out = append(*out, t.Args[1])
			} else if n, ok := t.Args[1].IntVal(); ok && n.Sign() > 0 && n.Int64() <= 8 {
				// a small literal range: enumerate it (t-1 is added by the caller)
				for k := int64(1); k <= n.Int64(); k++ {
					*out = append(*out, IntLit(k))
				}
			}
		}
		for _, a := range t.Args {
			collectBoundsIn(a, out)
		}
	} else if t.Kind == KQuant {
		collectBoundsIn(t.Args[0], out)
	}
}

func collectDivs(t *Term, out *[]*Term, seen map[string]bool) {
	switch t.Kind {
	case KApp:
		if t.Op == "div" && !mentionsBound(t, nil) && termSize(t, 40) < 40 {
			k := t.String()
			if !seen[k] {
				seen[k] = true
				*out = append(*out, t)
			}
		}
		for _, a := range t.Args {
			collectDivs(a, out, seen)
		}
	}
}

// witnessExists weakens nothing: an existential goal "exists i. B(i)" is replaced by
// "(exists i. B(i)) or B(c1) or ... or B(cn)" for candidate witnesses c (loop variables, skolems, small literals);
// each B(c) implies the existential, so the new goal is equivalent, but the solver finds the witness at once.
func witnessExists(goal *Term, hyps []*Term, sks []*Term) *Term {
	if goal == nil {
		return goal
	}
	var cands []*Term
	seen := map[string]bool{}
	add := func(t *Term) {
		if len(cands) < 10 && !seen[t.String()] {
			seen[t.String()] = true
			cands = append(cands, t)
		}
	}
	for _, sk := range sks {
		if sk.Sort == SInt {
			add(sk)
		}
	}
	c := newSigCollector()
	for _, h := range hyps {
		c.walk(h)
	}
	for _, n := range sortedKeys(c.vars) {
		if c.vars[n] == SInt && strings.HasPrefix(n, "loop") {
			add(Var(n, SInt))
			add(Add(Var(n, SInt), IntLit(1)))
		}
	}
	add(IntLit(0))
	known := collectSelectEqs(hyps)
	matchCands := func(body *Term, binder string) []*Term { return selectMatchCands(known, body, binder) }
	var rec func(t *Term, pos bool) *Term
	rec = func(t *Term, pos bool) *Term {
		switch {
		case t.Kind == KQuant && t.Op == "exists" && pos && len(t.Binders) == 1 && t.Binders[0].Sort == SInt:
			ds := []*Term{t}
			for _, cnd := range append(append([]*Term(nil), cands...), matchCands(t.Args[0], t.Binders[0].Op)...) {
				ds = append(ds, Subst(t.Args[0], map[string]*Term{t.Binders[0].Op: cnd}))
			}
			return Or(ds...)
		case t.Kind == KApp && t.Op == "and":
			var cs []*Term
			for _, a := range t.Args {
				cs = append(cs, rec(a, pos))
			}
			return And(cs...)
		case t.Kind == KApp && t.Op == "or":
			var cs []*Term
			for _, a := range t.Args {
				cs = append(cs, rec(a, pos))
			}
			return Or(cs...)
		case t.Kind == KApp && t.Op == "=>":
			return Implies(t.Args[0], rec(t.Args[1], pos))
		}
		return t
	}
	return rec(goal, true)
}

// expandSmallRanges rewrites quantifiers over a small literal integer range
//   exists i. 0 <= i && i < N && B(i)      /     forall i. (0 <= i && i < N) ==> B(i)        (N a literal <= 8)
// into the finite disjunction / conjunction of their instances. Equivalent, and quantifier-free.
func expandSmallRanges(t *Term) *Term {
	switch t.Kind {
	case KApp:
		changed := false
		args := make([]*Term, len(t.Args))
		for i, a := range t.Args {
			args[i] = expandSmallRanges(a)
			if args[i] != a {
				changed = true
			}
		}
		if changed {
			return rebuild(t, args)
		}
		return t
	case KQuant:
		if len(t.Binders) != 1 || t.Binders[0].Sort != SInt {
			return t
		}
		v := t.Binders[0].Op
		body := t.Args[0]
		var guard []*Term
		var rest *Term
		if t.Op == "exists" && body.Kind == KApp && body.Op == "and" {
			guard = body.Args
		} else if t.Op == "forall" && body.Kind == KApp && body.Op == "=>" {
			g := body.Args[0]
			if g.Kind == KApp && g.Op == "and" {
				guard = g.Args
			} else {
				guard = []*Term{g}
			}
			rest = body.Args[1]
		} else {
			return t
		}
		lo, hi := int64(-1), int64(-1)
		var others []*Term
		for _, g := range guard {
			if g.Kind == KApp && len(g.Args) == 2 {
				a, b := g.Args[0], g.Args[1]
				if g.Op == "<=" && b.Kind == KBound && b.Op == v {
					if n, ok := a.IntVal(); ok && lo < 0 {
						lo = n.Int64()
						continue
					}
				}
				if g.Op == "<" && a.Kind == KBound && a.Op == v {
					if n, ok := b.IntVal(); ok && hi < 0 {
						hi = n.Int64()
						continue
					}
				}
			}
			others = append(others, g)
		}
		if lo < 0 || hi < 0 || hi-lo > 8 {
			return t
		}
		var insts []*Term
		for k := lo; k < hi; k++ {
			m := map[string]*Term{v: IntLit(k)}
			if t.Op == "exists" {
				var cs []*Term
				for _, o := range others {
					cs = append(cs, Subst(o, m))
				}
				insts = append(insts, expandSmallRanges(And(cs...)))
			} else {
				var cs []*Term
				for _, o := range others {
					cs = append(cs, Subst(o, m))
				}
				insts = append(insts, expandSmallRanges(Implies(And(cs...), Subst(rest, m))))
			}
		}
		if t.Op == "exists" {
			return Or(insts...)
		}
		return And(insts...)
	}
	return t
}

// collectSelectEqs gathers ground facts "select(A, t) = literal" (in any position of the hypotheses): candidates
// for matching, never assumptions.
func collectSelectEqs(hyps []*Term) map[string][]*Term {
	known := map[string][]*Term{}
	var collectEq func(t *Term)
	collectEq = func(t *Term) {
		if t.Kind != KApp {
			return
		}
		if t.Op == "=" && len(t.Args) == 2 {
			for i := 0; i < 2; i++ {
				a, c := t.Args[i], t.Args[1-i]
				if a.Kind == KApp && a.Op == "select" && c.Kind == KLit {
					fv := map[string]*Term{}
					freeBoundVars(a, map[string]bool{}, fv)
					if len(fv) > 0 {
						continue
					}
					k := a.Args[0].String() + "|" + c.String()
					dup := false
					for _, o := range known[k] {
						if o.String() == a.Args[1].String() {
							dup = true
						}
					}
					if !dup && len(known[k]) < 4 {
						known[k] = append(known[k], a.Args[1])
					}
				}
			}
			return
		}
		for _, a := range t.Args {
			collectEq(a)
		}
	}
	for _, h := range hyps {
		collectEq(h)
	}
	return known
}

// selectMatchCands: the body mentions "select(A, base + n) = c" for the bound variable n and a ground fact
// "select(A, t) = c" is known: try n := t - base (e.g. the position of a C string's terminator).
func selectMatchCands(known map[string][]*Term, body *Term, binder string) []*Term {
	var out []*Term
	seen := map[string]bool{}
	var walk func(t *Term)
	walk = func(t *Term) {
		if t.Kind == KApp && t.Op == "=" && len(t.Args) == 2 {
			for i := 0; i < 2; i++ {
				a, c := t.Args[i], t.Args[1-i]
				if a.Kind == KApp && a.Op == "select" && c.Kind == KLit && mentionsBound(a.Args[1], map[string]bool{binder: true}) &&
					!mentionsBound(a.Args[0], map[string]bool{binder: true}) {
					base := Subst(a.Args[1], map[string]*Term{binder: IntLit(0)})
					fv := map[string]*Term{}
					freeBoundVars(base, map[string]bool{}, fv)
					freeBoundVars(a.Args[0], map[string]bool{}, fv)
					if len(fv) > 0 {
						continue // mentions variables of an inner quantifier
					}
					for _, t0 := range known[a.Args[0].String()+"|"+c.String()] {
						cand := Sub(t0, base)
						if len(out) < 6 && !seen[cand.String()] {
							seen[cand.String()] = true
							out = append(out, cand)
						}
					}
				}
			}
		}
		if t.Kind == KApp {
			for _, a := range t.Args {
				walk(a)
			}
		}
		if t.Kind == KQuant {
			walk(t.Args[0])
		}
	}
	walk(body)
	return out
}
