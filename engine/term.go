package main

// Terms: a small SMT-LIB term language with simplifying constructors.

import (
	"fmt"
	"math/big"
	"sort"
	"strings"
)

type Sort string

const (
	SInt  Sort = "Int"
	SBool Sort = "Bool"
	SStr  Sort = "Str"
	SAny  Sort = "Any"
	SReal Sort = "Real"
	SBV64 Sort = "(_ BitVec 64)"
	SBV8  Sort = "(_ BitVec 8)"
	SBV1  Sort = "(_ BitVec 1)"
	SBV32 Sort = "(_ BitVec 32)"
)

func ArrSort(idx, el Sort) Sort { return Sort("(Array " + string(idx) + " " + string(el) + ")") }

func (s Sort) IsArray() bool { return strings.HasPrefix(string(s), "(Array ") }

// ElemSort returns the element sort of an array sort with Int index.
func (s Sort) ElemSort() Sort {
	str := string(s)
	if !strings.HasPrefix(str, "(Array ") {
		panic("not an array sort: " + str)
	}
	inner := str[len("(Array ") : len(str)-1]
	// index sort is first token or parenthesised group
	depth := 0
	for i, c := range inner {
		if c == '(' {
			depth++
		} else if c == ')' {
			depth--
		} else if c == ' ' && depth == 0 {
			return Sort(inner[i+1:])
		}
	}
	panic("bad array sort " + str)
}

func (s Sort) IdxSort() Sort {
	str := string(s)
	inner := str[len("(Array ") : len(str)-1]
	depth := 0
	for i, c := range inner {
		if c == '(' {
			depth++
		} else if c == ')' {
			depth--
		} else if c == ' ' && depth == 0 {
			return Sort(inner[:i])
		}
	}
	panic("bad array sort " + str)
}

type TermKind int

const (
	KVar   TermKind = iota // free constant
	KLit                   // literal (int, bool, bv)
	KApp                   // application of builtin or UF
	KBound                 // bound variable
	KQuant                 // forall/exists ; Op = "forall"/"exists"; Binders; Args[0] body
)

type Term struct {
	Kind    TermKind
	Op      string // var name, literal text, or operator
	Args    []*Term
	Sort    Sort
	Binders []*Term // for KQuant
	Pats    [][]*Term
	str     string
}

var termIntern = map[string]*Term{}

func Var(name string, s Sort) *Term   { return &Term{Kind: KVar, Op: name, Sort: s} }
func Bound(name string, s Sort) *Term { return &Term{Kind: KBound, Op: name, Sort: s} }

var (
	True  = &Term{Kind: KLit, Op: "true", Sort: SBool}
	False = &Term{Kind: KLit, Op: "false", Sort: SBool}
)

func IntLit(n int64) *Term {
	return IntBig(big.NewInt(n))
}

func IntBig(n *big.Int) *Term {
	if n.Sign() < 0 {
		return &Term{Kind: KLit, Op: "(- " + new(big.Int).Neg(n).String() + ")", Sort: SInt}
	}
	return &Term{Kind: KLit, Op: n.String(), Sort: SInt}
}

func BoolLit(b bool) *Term {
	if b {
		return True
	}
	return False
}

func BVLit(v uint64, width int) *Term {
	s := Sort(fmt.Sprintf("(_ BitVec %d)", width))
	return &Term{Kind: KLit, Op: fmt.Sprintf("(_ bv%d %d)", v, width), Sort: s}
}

func (t *Term) IsTrue() bool  { return t == True || (t.Kind == KLit && t.Op == "true") }
func (t *Term) IsFalse() bool { return t == False || (t.Kind == KLit && t.Op == "false") }

func (t *Term) IntVal() (*big.Int, bool) {
	if t.Kind != KLit || t.Sort != SInt {
		return nil, false
	}
	s := t.Op
	neg := false
	if strings.HasPrefix(s, "(- ") {
		neg = true
		s = s[3 : len(s)-1]
	}
	n, ok := new(big.Int).SetString(s, 10)
	if !ok {
		return nil, false
	}
	if neg {
		n.Neg(n)
	}
	return n, true
}

func App(op string, s Sort, args ...*Term) *Term {
	return &Term{Kind: KApp, Op: op, Args: args, Sort: s}
}

func (t *Term) String() string {
	if t.str != "" {
		return t.str
	}
	var s string
	switch t.Kind {
	case KVar, KLit, KBound:
		s = t.Op
		if t.Kind != KLit {
			s = smtName(s)
		}
	case KApp:
		if len(t.Args) == 0 {
			s = smtOp(t.Op)
		} else {
			var b strings.Builder
			b.WriteString("(")
			b.WriteString(smtOp(t.Op))
			for _, a := range t.Args {
				b.WriteString(" ")
				b.WriteString(a.String())
			}
			b.WriteString(")")
			s = b.String()
		}
	case KQuant:
		var b strings.Builder
		b.WriteString("(" + t.Op + " (")
		for _, v := range t.Binders {
			b.WriteString("(" + smtName(v.Op) + " " + string(v.Sort) + ")")
		}
		b.WriteString(") ")
		if len(t.Pats) > 0 {
			b.WriteString("(! ")
		}
		b.WriteString(t.Args[0].String())
		if len(t.Pats) > 0 {
			for _, p := range t.Pats {
				b.WriteString(" :pattern (")
				for i, x := range p {
					if i > 0 {
						b.WriteString(" ")
					}
					b.WriteString(x.String())
				}
				b.WriteString(")")
			}
			b.WriteString(")")
		}
		b.WriteString(")")
		s = b.String()
	}
	t.str = s
	return s
}

func smtOp(op string) string {
	switch op {
	case "and", "or", "not", "=>", "=", "ite", "select", "store", "+", "-", "*", "div", "mod", "<", "<=", ">", ">=", "distinct", "abs":
		return op
	}
	if strings.HasPrefix(op, "bv") || strings.HasPrefix(op, "(_ ") || strings.HasPrefix(op, "(as ") {
		return op
	}
	return smtName(op)
}

func smtName(n string) string {
	ok := true
	for _, c := range n {
		if !(c >= 'a' && c <= 'z' || c >= 'A' && c <= 'Z' || c >= '0' && c <= '9' || c == '_' || c == '.' || c == '$' || c == '!') {
			ok = false
			break
		}
	}
	if ok && n != "" && !(n[0] >= '0' && n[0] <= '9') {
		return n
	}
	return "|" + strings.ReplaceAll(n, "|", "!") + "|"
}

// ---------- simplifying constructors ----------

func Not(a *Term) *Term {
	if a.IsTrue() {
		return False
	}
	if a.IsFalse() {
		return True
	}
	if a.Kind == KApp && a.Op == "not" {
		return a.Args[0]
	}
	return App("not", SBool, a)
}

func And(as ...*Term) *Term {
	var out []*Term
	for _, a := range as {
		if a.IsTrue() {
			continue
		}
		if a.IsFalse() {
			return False
		}
		if a.Kind == KApp && a.Op == "and" {
			out = append(out, a.Args...)
			continue
		}
		out = append(out, a)
	}
	switch len(out) {
	case 0:
		return True
	case 1:
		return out[0]
	}
	return App("and", SBool, out...)
}

func Or(as ...*Term) *Term {
	var out []*Term
	for _, a := range as {
		if a.IsFalse() {
			continue
		}
		if a.IsTrue() {
			return True
		}
		if a.Kind == KApp && a.Op == "or" {
			out = append(out, a.Args...)
			continue
		}
		out = append(out, a)
	}
	switch len(out) {
	case 0:
		return False
	case 1:
		return out[0]
	}
	return App("or", SBool, out...)
}

func Implies(a, b *Term) *Term {
	if a.IsTrue() {
		return b
	}
	if a.IsFalse() || b.IsTrue() {
		return True
	}
	if b.IsFalse() {
		return Not(a)
	}
	return App("=>", SBool, a, b)
}

func Iff(a, b *Term) *Term { return Eq(a, b) }

func sameTerm(a, b *Term) bool {
	if a == b {
		return true
	}
	return a.String() == b.String()
}

// distinctLits reports whether a and b are syntactically distinct literals (or distinct
// nullary constructors / string constants).
func distinctLits(a, b *Term) bool {
	if a.Kind == KLit && b.Kind == KLit {
		return a.Op != b.Op
	}
	if a.Kind == KApp && b.Kind == KApp && len(a.Args) == 0 && len(b.Args) == 0 &&
		strings.HasPrefix(a.Op, "strlit!") && strings.HasPrefix(b.Op, "strlit!") {
		return a.Op != b.Op
	}
	return false
}

func Eq(a, b *Term) *Term {
	if a.Sort != b.Sort {
		panic(fmt.Sprintf("Eq: sort mismatch %s:%s vs %s:%s", a, a.Sort, b, b.Sort))
	}
	if sameTerm(a, b) {
		return True
	}
	if distinctLits(a, b) {
		return False
	}
	if a.Sort == SBool {
		if a.IsTrue() {
			return b
		}
		if b.IsTrue() {
			return a
		}
		if a.IsFalse() {
			return Not(b)
		}
		if b.IsFalse() {
			return Not(a)
		}
	}
	// constructor applications of the Any datatype
	if a.Kind == KApp && b.Kind == KApp && strings.HasPrefix(a.Op, "box!") && strings.HasPrefix(b.Op, "box!") {
		if a.Op != b.Op {
			return False
		}
		var cs []*Term
		for i := range a.Args {
			cs = append(cs, Eq(a.Args[i], b.Args[i]))
		}
		return And(cs...)
	}
	return App("=", SBool, a, b)
}

func Neq(a, b *Term) *Term { return Not(Eq(a, b)) }

func Ite(c, a, b *Term) *Term {
	if c.IsTrue() {
		return a
	}
	if c.IsFalse() {
		return b
	}
	if sameTerm(a, b) {
		return a
	}
	if a.Sort == SBool {
		if a.IsTrue() && b.IsFalse() {
			return c
		}
		if a.IsFalse() && b.IsTrue() {
			return Not(c)
		}
	}
	return App("ite", a.Sort, c, a, b)
}

func arith(op string, a, b *Term) *Term {
	x, okx := a.IntVal()
	y, oky := b.IntVal()
	if okx && oky {
		r := new(big.Int)
		switch op {
		case "+":
			return IntBig(r.Add(x, y))
		case "-":
			return IntBig(r.Sub(x, y))
		case "*":
			return IntBig(r.Mul(x, y))
		}
	}
	switch op {
	case "+":
		if okx && x.Sign() == 0 {
			return b
		}
		if oky && y.Sign() == 0 {
			return a
		}
	case "-":
		if oky && y.Sign() == 0 {
			return a
		}
		if sameTerm(a, b) {
			return IntLit(0)
		}
	case "*":
		if okx && x.Cmp(big.NewInt(1)) == 0 {
			return b
		}
		if oky && y.Cmp(big.NewInt(1)) == 0 {
			return a
		}
		if (okx && x.Sign() == 0) || (oky && y.Sign() == 0) {
			return IntLit(0)
		}
	}
	return App(op, SInt, a, b)
}

func Add(a, b *Term) *Term { return arith("+", a, b) }
func Sub(a, b *Term) *Term { return arith("-", a, b) }
func Mul(a, b *Term) *Term { return arith("*", a, b) }
func Neg(a *Term) *Term    { return Sub(IntLit(0), a) }

func cmp(op string, a, b *Term) *Term {
	x, okx := a.IntVal()
	y, oky := b.IntVal()
	if okx && oky {
		c := x.Cmp(y)
		switch op {
		case "<":
			return BoolLit(c < 0)
		case "<=":
			return BoolLit(c <= 0)
		case ">":
			return BoolLit(c > 0)
		case ">=":
			return BoolLit(c >= 0)
		}
	}
	if sameTerm(a, b) {
		return BoolLit(op == "<=" || op == ">=")
	}
	return App(op, SBool, a, b)
}

func Lt(a, b *Term) *Term { return cmp("<", a, b) }
func Le(a, b *Term) *Term { return cmp("<=", a, b) }
func Gt(a, b *Term) *Term { return cmp(">", a, b) }
func Ge(a, b *Term) *Term { return cmp(">=", a, b) }

// Go-style truncated division and remainder in terms of SMT floor div/mod.
func GoDiv(a, b *Term) *Term {
	x, okx := a.IntVal()
	y, oky := b.IntVal()
	if okx && oky && y.Sign() != 0 {
		return IntBig(new(big.Int).Quo(x, y))
	}
	if oky && y.Sign() > 0 {
		// a >= 0 ? a div b : -((-a) div b)
		return Ite(Ge(a, IntLit(0)), App("div", SInt, a, b), Neg(App("div", SInt, Neg(a), b)))
	}
	// general: sign-aware
	q := App("div", SInt, App("abs", SInt, a), App("abs", SInt, b))
	sameSign := Eq(Ge(a, IntLit(0)), Ge(b, IntLit(0)))
	return Ite(sameSign, q, Neg(q))
}

func GoRem(a, b *Term) *Term {
	x, okx := a.IntVal()
	y, oky := b.IntVal()
	if okx && oky && y.Sign() != 0 {
		return IntBig(new(big.Int).Rem(x, y))
	}
	return Sub(a, Mul(b, GoDiv(a, b)))
}

func Select(arr, idx *Term) *Term {
	// select over store with decidable index comparison
	for arr.Kind == KApp && arr.Op == "store" {
		e := Eq(arr.Args[1], idx)
		if e.IsTrue() {
			return arr.Args[2]
		}
		if e.IsFalse() {
			arr = arr.Args[0]
			continue
		}
		break
	}
	return App("select", arr.Sort.ElemSort(), arr, idx)
}

func Store(arr, idx, v *Term) *Term {
	if v.Sort != arr.Sort.ElemSort() {
		panic(fmt.Sprintf("Store: sort mismatch: array %s elem %s value %s:%s", arr.Sort, arr.Sort.ElemSort(), v, v.Sort))
	}
	return App("store", arr.Sort, arr, idx, v)
}

func Forall(bs []*Term, body *Term) *Term {
	if body.IsTrue() || len(bs) == 0 {
		return body
	}
	return &Term{Kind: KQuant, Op: "forall", Binders: bs, Args: []*Term{body}, Sort: SBool}
}

func Exists(bs []*Term, body *Term) *Term {
	if body.IsFalse() || len(bs) == 0 {
		return body
	}
	return &Term{Kind: KQuant, Op: "exists", Binders: bs, Args: []*Term{body}, Sort: SBool}
}

// Subst replaces free variables / bound variables by name.
func Subst(t *Term, m map[string]*Term) *Term {
	if len(m) == 0 {
		return t
	}
	switch t.Kind {
	case KVar, KBound:
		if r, ok := m[t.Op]; ok {
			return r
		}
		return t
	case KLit:
		return t
	case KApp:
		changed := false
		args := make([]*Term, len(t.Args))
		for i, a := range t.Args {
			args[i] = Subst(a, m)
			if args[i] != a {
				changed = true
			}
		}
		if !changed {
			return t
		}
		return rebuild(t, args)
	case KQuant:
		m2 := m
		for _, b := range t.Binders {
			if _, ok := m[b.Op]; ok {
				if &m2 == &m || len(m2) == len(m) {
					m2 = map[string]*Term{}
					for k, v := range m {
						m2[k] = v
					}
				}
				delete(m2, b.Op)
			}
		}
		body := Subst(t.Args[0], m2)
		var pats [][]*Term
		for _, p := range t.Pats {
			var np []*Term
			for _, x := range p {
				np = append(np, Subst(x, m2))
			}
			pats = append(pats, np)
		}
		return &Term{Kind: KQuant, Op: t.Op, Binders: t.Binders, Args: []*Term{body}, Sort: SBool, Pats: pats}
	}
	return t
}

// rebuild re-applies the simplifying constructor for known operators.
func rebuild(t *Term, args []*Term) *Term {
	switch t.Op {
	case "and":
		return And(args...)
	case "or":
		return Or(args...)
	case "not":
		return Not(args[0])
	case "=>":
		return Implies(args[0], args[1])
	case "=":
		return Eq(args[0], args[1])
	case "ite":
		return Ite(args[0], args[1], args[2])
	case "+":
		if len(args) == 2 {
			return Add(args[0], args[1])
		}
	case "-":
		if len(args) == 2 {
			return Sub(args[0], args[1])
		}
	case "*":
		if len(args) == 2 {
			return Mul(args[0], args[1])
		}
	case "<":
		return Lt(args[0], args[1])
	case "<=":
		return Le(args[0], args[1])
	case ">":
		return Gt(args[0], args[1])
	case ">=":
		return Ge(args[0], args[1])
	case "select":
		return Select(args[0], args[1])
	}
	return &Term{Kind: KApp, Op: t.Op, Args: args, Sort: t.Sort}
}

// ---------- signature collection for printing ----------

type UFSig struct {
	Name string
	Args []Sort
	Ret  Sort
}

var ufRegistry = map[string]*UFSig{}

func DeclareUF(name string, ret Sort, args ...Sort) *UFSig {
	if u, ok := ufRegistry[name]; ok {
		return u
	}
	u := &UFSig{Name: name, Args: args, Ret: ret}
	ufRegistry[name] = u
	return u
}

func UF(name string, ret Sort, args ...*Term) *Term {
	if _, ok := ufRegistry[name]; !ok {
		var as []Sort
		for _, a := range args {
			as = append(as, a.Sort)
		}
		DeclareUF(name, ret, as...)
	}
	return App(name, ret, args...)
}

// collect walks terms and records free vars, UFs, and sorts
type sigCollector struct {
	vars  map[string]Sort
	ufs   map[string]*UFSig
	sorts map[Sort]bool
	seen  map[*Term]bool
}

func newSigCollector() *sigCollector {
	return &sigCollector{vars: map[string]Sort{}, ufs: map[string]*UFSig{}, sorts: map[Sort]bool{}, seen: map[*Term]bool{}}
}

func (c *sigCollector) sort(s Sort) {
	if s.IsArray() {
		c.sort(s.IdxSort())
		c.sort(s.ElemSort())
		return
	}
	c.sorts[s] = true
}

func (c *sigCollector) walk(t *Term) {
	if c.seen[t] {
		return
	}
	c.seen[t] = true
	c.sort(t.Sort)
	switch t.Kind {
	case KVar:
		c.vars[t.Op] = t.Sort
	case KApp:
		if u, ok := ufRegistry[t.Op]; ok {
			c.ufs[t.Op] = u
			for _, s := range u.Args {
				c.sort(s)
			}
			c.sort(u.Ret)
		}
		for _, a := range t.Args {
			c.walk(a)
		}
	case KQuant:
		for _, b := range t.Binders {
			c.sort(b.Sort)
		}
		c.walk(t.Args[0])
		for _, p := range t.Pats {
			for _, x := range p {
				c.walk(x)
			}
		}
	}
}

func sortedKeys[V any](m map[string]V) []string {
	ks := make([]string, 0, len(m))
	for k := range m {
		ks = append(ks, k)
	}
	sort.Strings(ks)
	return ks
}

// termSize gives a rough size (tree) capped.
func termSize(t *Term, cap int) int {
	n := 1
	for _, a := range t.Args {
		n += termSize(a, cap-n)
		if n > cap {
			return n
		}
	}
	return n
}
