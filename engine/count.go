package main

// count(k, lo, hi, P): the number of integers k with lo <= k < hi for which P holds.
//
// Each syntactically distinct body P (after evaluation: a term over the current state's symbols, with the binder
// replaced by a canonical name) defines one function cnt!N(lo, hi, extras...) where extras are bound variables of
// enclosing quantifiers that occur in P. The function is DEFINED by
//     hi <= lo           ==> cnt(lo, hi) == 0
//     lo <= hi           ==> cnt(lo, hi+1) == cnt(lo, hi) + (P(hi) ? 1 : 0)
// (a conservative extension: recursion on hi - lo). From these follow, by induction, the front unfolding
//     lo < hi            ==> cnt(lo, hi) == (P(lo) ? 1 : 0) + cnt(lo+1, hi)
// and the bounds 0 <= cnt(lo, hi) <= max(hi - lo, 0), and the split cnt(lo,hi) == cnt(lo,m) + cnt(m,hi) for lo<=m<=hi;
// they are added as well (true of the defined function; the solver cannot do the induction itself).
// The engine instantiates the unfoldings at the ground applications that occur in a query.

import (
	"fmt"
	"sort"
	"strings"
	"sync"
)

type countDef struct {
	name   string
	binder string  // canonical bound variable name in body
	body   *Term   // P with the binder
	extras []*Term // bound variables of enclosing quantifiers (as they occurred at definition time)
}

var (
	countMu    sync.Mutex
	countByKey = map[string]*countDef{}
	countByUF  = map[string]*countDef{}
)

func freeBoundVars(t *Term, bound map[string]bool, out map[string]*Term) {
	switch t.Kind {
	case KBound:
		if !bound[t.Op] {
			out[t.Op] = t
		}
	case KApp:
		for _, a := range t.Args {
			freeBoundVars(a, bound, out)
		}
	case KQuant:
		nb := map[string]bool{}
		for k := range bound {
			nb[k] = true
		}
		for _, b := range t.Binders {
			nb[b.Op] = true
		}
		freeBoundVars(t.Args[0], nb, out)
	}
}

// countTerm builds cnt(lo, hi) for the body (which mentions the bound variable k).
func countTerm(k *Term, body, lo, hi *Term) *Term {
	const canon = "cnt.k"
	cb := Subst(body, map[string]*Term{k.Op: Bound(canon, SInt)})
	fv := map[string]*Term{}
	freeBoundVars(cb, map[string]bool{canon: true}, fv)
	var names []string
	for n := range fv {
		names = append(names, n)
	}
	sort.Strings(names)
	var extras []*Term
	// canonicalise the extras so that the same body under differently named outer binders shares one function
	ren := map[string]*Term{}
	for i, n := range names {
		extras = append(extras, fv[n])
		ren[n] = Bound(fmt.Sprintf("cnt.x%d", i), fv[n].Sort)
	}
	keyBody := Subst(cb, ren)
	key := keyBody.String()
	countMu.Lock()
	d, ok := countByKey[key]
	if !ok {
		d = &countDef{name: fmt.Sprintf("cnt!%d", len(countByKey)), binder: canon, body: keyBody}
		for i, n := range names {
			d.extras = append(d.extras, Bound(fmt.Sprintf("cnt.x%d", i), fv[n].Sort))
		}
		countByKey[key] = d
		countByUF[d.name] = d
	}
	countMu.Unlock()
	args := append([]*Term{lo, hi}, extras...)
	return UF(d.name, SInt, args...)
}

func (d *countDef) p(at *Term, extras []*Term) *Term {
	m := map[string]*Term{d.binder: at}
	for i, x := range d.extras {
		if i < len(extras) {
			m[x.Op] = extras[i]
		}
	}
	return Subst(d.body, m)
}

// countAxioms returns the defining axioms of the count functions that occur in terms, instantiated at the
// ground applications found there, plus the quantified definitions.
func countAxioms(terms []*Term) []*Term {
	type app struct {
		d    *countDef
		args []*Term
	}
	var apps []app
	seen := map[string]bool{}
	var walk func(t *Term, bound map[string]bool)
	walk = func(t *Term, bound map[string]bool) {
		switch t.Kind {
		case KApp:
			if strings.HasPrefix(t.Op, "cnt!") {
				countMu.Lock()
				d := countByUF[t.Op]
				countMu.Unlock()
				if d != nil {
					fv := map[string]*Term{}
					freeBoundVars(t, map[string]bool{}, fv)
					if len(fv) == 0 && !seen[t.String()] {
						seen[t.String()] = true
						apps = append(apps, app{d, t.Args})
					}
				}
			}
			for _, a := range t.Args {
				walk(a, bound)
			}
		case KQuant:
			walk(t.Args[0], bound)
		}
	}
	for _, t := range terms {
		walk(t, nil)
	}
	if len(apps) == 0 {
		return nil
	}
	var out []*Term
	usedDefs := map[string]*countDef{}
	c := func(d *countDef, lo, hi *Term, ex []*Term) *Term {
		return UF(d.name, SInt, append([]*Term{lo, hi}, ex...)...)
	}
	one := func(b *Term) *Term { return Ite(b, IntLit(1), IntLit(0)) }
	for _, a := range apps {
		d := a.d
		usedDefs[d.name] = d
		lo, hi, ex := a.args[0], a.args[1], a.args[2:]
		cur := c(d, lo, hi, ex)
		// empty range, bounds
		out = append(out, Implies(Le(hi, lo), Eq(cur, IntLit(0))))
		out = append(out, And(Ge(cur, IntLit(0)), Implies(Le(lo, hi), Le(cur, Sub(hi, lo)))))
		// back and forward unfolding around hi, four steps each way (a UTF-8 character has up to four bytes)
		for j := int64(0); j < 4; j++ {
			h0 := Sub(hi, IntLit(j))
			h1 := Sub(hi, IntLit(j+1))
			out = append(out, Implies(Lt(lo, h0), Eq(c(d, lo, h0, ex), Add(c(d, lo, h1, ex), one(d.p(h1, ex))))))
			g0 := Add(hi, IntLit(j))
			g1 := Add(hi, IntLit(j+1))
			out = append(out, Implies(Le(lo, g0), Eq(c(d, lo, g1, ex), Add(c(d, lo, g0, ex), one(d.p(g0, ex))))))
		}
		// front unfolding
		out = append(out, Implies(Lt(lo, hi), Eq(cur, Add(one(d.p(lo, ex)), c(d, Add(lo, IntLit(1)), hi, ex)))))
	}
	// splits between applications of the same function with the same extras
	for i, a := range apps {
		for j, b := range apps {
			if i == j || a.d != b.d || len(apps) > 12 {
				continue
			}
			same := true
			for k := 2; k < len(a.args); k++ {
				if a.args[k].String() != b.args[k].String() {
					same = false
				}
			}
			if !same {
				continue
			}
			// monotone in the upper bound (also one step beyond a's bound)
			if a.args[0].String() == b.args[0].String() {
				lo, ex := a.args[0], a.args[2:]
				out = append(out, Implies(Le(a.args[1], b.args[1]), Le(c(a.d, lo, a.args[1], ex), c(a.d, lo, b.args[1], ex))))
				a1 := Add(a.args[1], IntLit(1))
				out = append(out, Implies(Le(a1, b.args[1]), Le(c(a.d, lo, a1, ex), c(a.d, lo, b.args[1], ex))))
			}
			// cnt(lo, hi) == cnt(lo, m) + cnt(m, hi) with m := b.hi when b.lo == a.lo
			if a.args[0].String() == b.args[0].String() {
				lo, hi, m, ex := a.args[0], a.args[1], b.args[1], a.args[2:]
				out = append(out, Implies(And(Le(lo, m), Le(m, hi)),
					Eq(c(a.d, lo, hi, ex), Add(c(a.d, lo, m, ex), c(a.d, m, hi, ex)))))
			}
		}
	}
	// quantified definitions
	var names []string
	for n := range usedDefs {
		names = append(names, n)
	}
	sort.Strings(names)
	for _, n := range names {
		d := usedDefs[n]
		lo, hi := Bound("cnt.lo", SInt), Bound("cnt.hi", SInt)
		bs := append([]*Term{lo, hi}, d.extras...)
		cur := c(d, lo, hi, d.extras)
		out = append(out, Forall(bs, And(
			Implies(Le(hi, lo), Eq(cur, IntLit(0))),
			Ge(cur, IntLit(0)),
			Implies(Le(lo, hi), Eq(c(d, lo, Add(hi, IntLit(1)), d.extras), Add(cur, one(d.p(hi, d.extras))))))))
	}
	return out
}
