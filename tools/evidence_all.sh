#!/bin/bash
# evidence_all.sh: the quick check of every claimed property on /repo's working tree, writing /verif/evidence/<id>.json.
# Non-zero if any check reports a VIOLATION.
cd /verif
rc=0
for p in $(python3 -c "import json;print(' '.join(c['property_id'] for c in json.load(open('/verif/MANIFEST.json'))['checks']))"); do
  out=$(bin/check $p --tier quick 2>&1); r=$?
  echo "$out" | grep -E "^(VIOLATION|KNOWN-FINDING|C[0-9]+:)" | cut -c1-200
  [ $r -ne 0 ] && rc=1
done
exit $rc
