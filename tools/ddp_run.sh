#!/bin/bash
# ddp_run.sh <file.ddp>: builds kddp, the list definitions and the C runtime from /repo's working tree
# (cached in $VERIF_SCRATCH), compiles the DDP program, links it and runs it. Prints stdout, then
# "exit=<status>" and the program's stderr. Exit status 0 if everything could be built and run.
set -u
REPO=${VERIF_REPO:-/repo}
export GOFLAGS=-mod=mod GOPROXY=off
export CGO_CPPFLAGS="$(llvm-config-14 --cppflags)" CGO_CXXFLAGS=-std=c++14 CGO_LDFLAGS="$(llvm-config-14 --ldflags --libs --system-libs all)"
S=${VERIF_SCRATCH:-$(mktemp -d /tmp/vgo-run-XXXXXX)}
mkdir -p "$S"
if [ ! -x "$S/kddp" ]; then (cd $REPO && go build -o "$S/kddp" ./cmd/kddp) || { echo "SETUP: kddp build failed"; exit 3; }; fi
if [ ! -f "$S/listdefs.o" ]; then (cd "$S" && ./kddp dump-list-defs -o "$S/listdefs" --object >/dev/null 2>&1) || { echo "SETUP: list defs failed"; exit 3; }; fi
if [ ! -d "$S/rt" ]; then
  mkdir "$S/rt"
  for f in $REPO/lib/runtime/source/DDP/*.c $REPO/lib/runtime/source/DDP/*/*.c $REPO/lib/runtime/source/main.c; do
    gcc -c -O2 -std=c11 -D_POSIX_C_SOURCE=200809L -I$REPO/lib/runtime/include -o "$S/rt/$(basename "$f" .c).o" "$f" || { echo "SETUP: runtime build failed"; exit 3; }
  done
fi
name=$(basename "$1" .ddp)
cp "$1" "$S/$name.ddp"
(cd "$S" && ./kddp kompiliere "$name.ddp" --list-defs-linken=false --module-linken=false -o "$name.ll" > "$name.cout" 2>&1) || { echo "COMPILE-FAILED"; cat "$S/$name.cout"; exit 4; }
clang-14 -Wno-override-module -o "$S/$name" "$S/$name.ll" "$S/listdefs.o" "$S"/rt/*.o -lm 2> "$S/$name.lerr" || { echo "LINK-FAILED"; head -5 "$S/$name.lerr"; exit 5; }
"$S/$name" > "$S/$name.out" 2> "$S/$name.err"; st=$?
cat "$S/$name.out"
echo "exit=$st"
cat "$S/$name.err"
exit 0
