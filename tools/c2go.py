#!/usr/bin/env python3
"""c2go.py: mechanical extraction of C runtime functions into Go, via clang's unoptimised LLVM IR.

    c2go.py --out DIR --repo /repo [--only f1,f2,...] file.c ...

For every C file: `clang-14 -O0 -S -emit-llvm -fno-discard-value-names` (the real source, the real headers),
then each `define`d function is rewritten instruction by instruction into Go (one Go statement per IR
instruction, one label per basic block, gotos for branches).  The Go text is what the deductive engine (vgo)
reads; nothing is written by hand.  What the extraction does and drops is listed in DESIGN.md (section 3b) and
in the header of the generated file.

Representation
  iN            -> intN (two's complement; unsigned operations go through uintN conversions)
  i1            -> bool
  i8*           -> Ptr{B *Blk, O int64}: a block of bytes and an offset (pointer arithmetic moves O)
  %struct.S*    -> *S         (field k is named from the table STRUCT_FIELDS, checked against the IR arity)
  iN*, i8**     -> *intN, *Ptr (scalars passed by address)
  alloca T      -> a Go local variable; its address (&v) where the IR uses the alloca as a value
  alloca [N x i8] -> c_alloca(N): a fresh block with unknown contents
  load/store through i8* -> c_ld8(p) / c_st8(p, v): primitives whose (trusted) contracts read and update the
                   block's ghost contents and REQUIRE the access to lie inside a live block (the memory-safety obligation)
Unsupported constructs make the whole function an opaque extern (listed in the header).
"""
import argparse, os, re, subprocess, sys, json

STRUCT_FIELDS = {
    "ddpstring": ["str", "cap"],
    "ddpintlist": ["arr", "len", "cap"], "ddpfloatlist": ["arr", "len", "cap"], "ddpboollist": ["arr", "len", "cap"],
    "ddpcharlist": ["arr", "len", "cap"], "ddpbytelist": ["arr", "len", "cap"], "ddpstringlist": ["arr", "len", "cap"],
    "ddpanylist": ["arr", "len", "cap"], "ddpgenericlist": ["arr", "len", "cap"],
}
GO_RESERVED = {"break", "default", "func", "interface", "select", "case", "defer", "go", "map", "struct", "chan", "else",
               "goto", "package", "switch", "const", "fallthrough", "if", "range", "type", "continue", "for", "import",
               "return", "var", "len", "cap", "count", "box", "old", "result", "string", "copy", "append", "new", "make",
               "nil", "true", "false", "int", "bool", "Ptr", "Blk", "panic", "fresh", "at", "print"}


class Unsupported(Exception):
    pass


# ---------------------------------------------------------------- types
class T:
    def __init__(self, kind, **kw):
        self.kind = kind
        self.__dict__.update(kw)

    def __repr__(self):
        return ty_str(self)


def ty_str(t):
    k = t.kind
    if k == "int": return "i%d" % t.bits
    if k == "ptr": return ty_str(t.elem) + "*"
    if k == "named": return "%" + t.name
    if k == "array": return "[%d x %s]" % (t.n, ty_str(t.elem))
    if k == "func": return "func"
    return k


def parse_type(s, pos=0):
    """returns (type, newpos)"""
    s_len = len(s)
    while pos < s_len and s[pos] == " ":
        pos += 1
    m = re.compile(r"i(\d+)").match(s, pos)
    if m:
        t = T("int", bits=int(m.group(1))); pos = m.end()
    elif s.startswith("void", pos):
        t = T("void"); pos += 4
    elif s.startswith("double", pos):
        t = T("double"); pos += 6
    elif s.startswith("float", pos):
        t = T("float"); pos += 5
    elif s.startswith("...", pos):
        t = T("varargs"); pos += 3
    elif s[pos] == "%":
        m = re.compile(r'%("[^"]+"|[\w.]+)').match(s, pos)
        t = T("named", name=m.group(1)); pos = m.end()
    elif s[pos] == "[":
        m = re.compile(r"\[(\d+) x ").match(s, pos)
        el, p2 = parse_type(s, m.end())
        assert s[p2] == "]", s[pos:]
        t = T("array", n=int(m.group(1)), elem=el); pos = p2 + 1
    elif s[pos] == "{":
        # literal struct type: skip to matching brace
        d = 0; p2 = pos
        while True:
            if s[p2] == "{": d += 1
            if s[p2] == "}":
                d -= 1
                if d == 0: break
            p2 += 1
        t = T("literalstruct"); pos = p2 + 1
    else:
        raise Unsupported("type syntax: " + s[pos:pos + 30])
    while pos < s_len:
        if s[pos] == "*":
            t = T("ptr", elem=t); pos += 1
        elif s.startswith(" (", pos) and t.kind != "func":
            # function type: T (args)
            d = 0; p2 = pos + 1
            while True:
                if s[p2] == "(": d += 1
                if s[p2] == ")":
                    d -= 1
                    if d == 0: break
                p2 += 1
            t = T("func", ret=t); pos = p2 + 1
        else:
            break
    return t, pos


def go_type(t, mod):
    k = t.kind
    if k == "int":
        if t.bits == 1: return "bool"
        if t.bits in (8, 16, 32, 64): return "int%d" % t.bits
        raise Unsupported("integer width %d" % t.bits)
    if k == "double": return "float64"
    if k == "float": return "float32"
    if k == "named":
        n = struct_go_name(t.name)
        if n is None or t.name not in mod.structs: raise Unsupported("type %" + t.name)
        return n
    if k == "ptr":
        e = t.elem
        if e.kind == "int" and e.bits == 8: return "Ptr"
        if e.kind == "array" and e.elem.kind == "int" and e.elem.bits == 8: return "Ptr"
        if e.kind in ("func", "void", "array", "literalstruct"): raise Unsupported("pointer to " + ty_str(e))
        if e.kind == "named" and (struct_go_name(e.name) is None or mod.structs.get(e.name) is None):
            return "*Opaque"   # a pointer to an object whose layout is not extracted: only passed along
        return "*" + go_type(e, mod)
    raise Unsupported("type " + ty_str(t))


def struct_go_name(n):
    if n.startswith("struct."):
        return n[len("struct."):]
    return None


def is_i8ptr(t):
    return t.kind == "ptr" and ((t.elem.kind == "int" and t.elem.bits == 8) or
                                (t.elem.kind == "array" and t.elem.elem.kind == "int" and t.elem.elem.bits == 8))


# ---------------------------------------------------------------- module parsing
class Func:
    pass


class Module:
    def __init__(self):
        self.structs = {}   # "struct.X" -> [T]
        self.funcs = {}     # name -> Func
        self.decls = {}     # name -> (ret T, [param T], varargs)
        self.globals = {}   # name -> text
        self.opaque_globals = set()


def split_top(s, sep=","):
    out, d, cur, inq = [], 0, "", False
    for ch in s:
        if ch == '"': inq = not inq
        if not inq:
            if ch in "([{<": d += 1
            if ch in ")]}>": d -= 1
            if ch == sep and d == 0:
                out.append(cur.strip()); cur = ""; continue
        cur += ch
    if cur.strip(): out.append(cur.strip())
    return out


PARAM_ATTRS = r"\b(noundef|signext|zeroext|nonnull|noalias|nocapture|readonly|writeonly|returned|immarg|inreg|nest|byval\([^)]*\)|sret\([^)]*\)|align \d+|dereferenceable\(\d+\)|dereferenceable_or_null\(\d+\))\b"


def strip_attrs(s):
    return re.sub(r"\s+", " ", re.sub(PARAM_ATTRS, "", s)).strip()


def parse_module(text):
    mod = Module()
    lines = text.split("\n")
    i = 0
    while i < len(lines):
        ln = lines[i]
        m = re.match(r'^%("[^"]+"|[\w.]+) = type (.*)$', ln)
        if m:
            name, body = m.group(1), m.group(2).strip()
            if body.startswith("{"):
                inner = body.strip()[1:-1].strip()
                fields = []
                try:
                    for f in split_top(inner):
                        fields.append(parse_type(f)[0])
                    mod.structs[name] = fields
                except Unsupported:
                    mod.structs[name] = None
            i += 1; continue
        m = re.match(r"^@([\w.$]+) = (.*)$", ln)
        if m:
            mod.globals[m.group(1)] = m.group(2)
            i += 1; continue
        m = re.match(r"^declare (.*)$", ln)
        if m:
            try:
                parse_header(mod, m.group(1), None)
            except Unsupported:
                pass
            i += 1; continue
        m = re.match(r"^define (.*) \{$", ln)
        if m:
            body = []
            i += 1
            while lines[i] != "}":
                body.append(lines[i]); i += 1
            try:
                parse_header(mod, m.group(1), body)
            except Unsupported as e:
                nm = re.search(r"@([\w.$]+)\(", m.group(1))
                f = Func(); f.name = nm.group(1); f.error = str(e); f.blocks = None
                mod.funcs[f.name] = f
            i += 1; continue
        i += 1
    return mod


def parse_header(mod, hdr, body):
    m = re.search(r"@([\w.$]+)\(", hdr)
    name = m.group(1)
    pre = hdr[:m.start()]
    pre = re.sub(r"\b(dso_local|internal|private|external|hidden|noundef|zeroext|signext|noalias|nonnull|unnamed_addr|local_unnamed_addr|available_externally|linkonce_odr|weak|dereferenceable_or_null\(\d+\)|dereferenceable\(\d+\)|align \d+)\b", "", pre).strip()
    ret, _ = parse_type(pre)
    # parameter list: up to matching paren
    d, p = 0, m.end() - 1
    start = p
    while True:
        if hdr[p] == "(": d += 1
        if hdr[p] == ")":
            d -= 1
            if d == 0: break
        p += 1
    plist = hdr[start + 1:p]
    params, varargs = [], False
    for a in split_top(plist):
        a = strip_attrs(a)
        if a == "...":
            varargs = True; continue
        t, pos = parse_type(a)
        pname = a[pos:].strip()
        params.append((t, pname[1:] if pname.startswith("%") else None))
    if body is None:
        mod.decls[name] = (ret, [t for t, _ in params], varargs)
        return
    f = Func(); f.name = name; f.ret = ret; f.params = params; f.varargs = varargs; f.error = None
    f.blocks = []
    cur = ("entry", [])
    first = True
    j = 0
    while j < len(body):
        ln = body[j]
        if not ln.strip():
            j += 1; continue
        lm = re.match(r'^("?[\w.$-]+"?):', ln)
        if lm:
            if first and not cur[1]:
                cur = (lm.group(1), [])
            else:
                f.blocks.append(cur); cur = (lm.group(1), [])
            first = False
            j += 1; continue
        first = False
        ins = ln.strip()
        # multi-line switch
        if ins.startswith("switch ") and ins.endswith("["):
            j += 1
            while not body[j].strip().startswith("]"):
                ins += " " + body[j].strip(); j += 1
            ins += " ]"
        ins = re.sub(r", ![\w.]+ !\d+", "", ins)
        ins = re.sub(r", align \d+$", "", ins)
        cur[1].append(ins)
        j += 1
    f.blocks.append(cur)
    mod.funcs[name] = f
    mod.decls[name] = (ret, [t for t, _ in params], varargs)


# ---------------------------------------------------------------- Go emission
def san(n):
    n = n.strip('"')
    if re.match(r"^\d+$", n): return "t" + n
    n = re.sub(r"[^\w]", "_", n)
    if n in GO_RESERVED: n += "_"
    if re.match(r"^\d", n): n = "v" + n
    return n


class Emitter:
    def __init__(self, mod, f, known_funcs):
        self.mod, self.f, self.known = mod, f, known_funcs
        self.vars = {}       # go name -> go type
        self.allocas = {}    # llvm name -> (kind, T)   kind: "var" | "bytes"
        self.vtypes = {}     # llvm value name -> T
        self.casts = {}      # llvm name of a struct-pointer -> i8* bitcast : (source operand go expr, T struct ptr)
        self.lines = []
        self.used_labels = set()
        self.externs = set()

    def declare(self, name, gt):
        self.vars[name] = gt

    def val(self, tok, t):
        """Go expression of an operand token of LLVM type t"""
        tok = tok.strip()
        if tok.startswith("%"):
            n = tok[1:]
            if n in self.allocas:
                kind, at = self.allocas[n]
                if kind == "bytes":
                    return "c_pblk(%s)" % san(n)
                return "&" + san(n)
            if n in self.casts:
                raise Unsupported("use of a reinterpreted pointer %" + n)
            return san(n)
        if tok == "null":
            gt = go_type(t, self.mod)
            return "Ptr{}" if gt == "Ptr" else "nil"
        if tok in ("true", "false"):
            return tok
        if tok in ("undef", "poison"):
            raise Unsupported("undef operand")
        if re.match(r"^-?\d+$", tok):
            if t.kind == "int" and t.bits == 1:
                return "true" if tok != "0" else "false"
            return tok
        if re.match(r"^-?[\d.]+e[+-]?\d+$", tok) or tok.startswith("0x"):
            raise Unsupported("float constant")
        m = re.match(r"^getelementptr inbounds \(\[(\d+) x i8\], \[\d+ x i8\]\* @([\w.$]+), i(?:32|64) 0, i(?:32|64) 0\)$", tok)
        if m:
            self.externs.add("cstr")
            return 'c_cstr(%d)' % self.strconst(m.group(2))
        if tok.startswith("@"):
            if go_type(t, self.mod) == "*Opaque":
                self.mod.opaque_globals.add(tok[1:])
                return "c_global_%s()" % san(tok[1:])
            raise Unsupported("global operand " + tok)
        raise Unsupported("operand " + tok)

    def strconst(self, g):
        ks = sorted(k for k in self.mod.globals if k.startswith(".str"))
        return ks.index(g) if g in ks else 0

    def typed(self, s):
        """split 'T operand' -> (T, operand token)"""
        s = strip_attrs(s)
        t, pos = parse_type(s)
        return t, s[pos:].strip()

    def emit(self, s):
        self.lines.append("\t" + s)

    def run(self):
        f = self.f
        # pass 0: allocas and value types
        for label, instrs in f.blocks:
            for ins in instrs:
                m = re.match(r"^%([\w.$\"-]+) = alloca (.*)$", ins)
                if m:
                    t, _ = parse_type(m.group(2))
                    if t.kind == "array":
                        if not (t.elem.kind == "int" and t.elem.bits == 8):
                            raise Unsupported("local array of " + ty_str(t.elem))
                        self.allocas[m.group(1)] = ("bytes", t)
                    else:
                        self.allocas[m.group(1)] = ("var", t)
        sig_params = []
        for t, n in f.params:
            sig_params.append("%s %s" % (san(n), go_type(t, self.mod)))
            self.vtypes[n] = t
        ret = "" if f.ret.kind == "void" else " " + go_type(f.ret, self.mod)
        body = []
        phis = {}   # block label -> [(dest, T, [(val, pred)])]
        for label, instrs in f.blocks:
            for ins in instrs:
                m = re.match(r"^%([\w.$\"-]+) = phi (.*)$", ins)
                if m:
                    t, pos = parse_type(m.group(2))
                    rest = m.group(2)[pos:]
                    inc = re.findall(r"\[ ([^,\]]+), %([\w.$\"-]+) \]", rest)
                    phis.setdefault(label, []).append((m.group(1), t, inc))
                    self.declare(san(m.group(1)), go_type(t, self.mod))
                    self.vtypes[m.group(1)] = t
        self.phis = phis
        for bi, (label, instrs) in enumerate(f.blocks):
            self.cur = label
            self.lines = []
            for ins in instrs:
                self.instr(ins)
            body.append((label, self.lines))
        out = []
        out.append("func %s(%s)%s {" % (f.name, ", ".join(sig_params), ret))
        for n, (kind, t) in self.allocas.items():
            if kind == "bytes":
                out.append("\tvar %s *Blk = c_alloca(%d)" % (san(n), t.n))
            else:
                out.append("\tvar %s %s" % (san(n), go_type(t, self.mod)))
            out.append("\t_ = %s" % san(n))
        for n in sorted(self.vars):
            out.append("\tvar %s %s" % (n, self.vars[n]))
            out.append("\t_ = %s" % n)
        for bi, (label, lines) in enumerate(body):
            if bi > 0 and san(label) in self.used_labels:
                out.append("%s:" % san(label))
            elif bi > 0:
                out.append("\t// unreachable block %s omitted" % label)
                continue
            out.extend(lines)
        out.append("}")
        return "\n".join(out)

    def goto(self, target):
        """statements for taking the edge cur -> target (phi copies, then goto)"""
        t = target.lstrip("%")
        self.used_labels.add(san(t))
        copies = []
        for dest, ty, inc in self.phis.get(t, []) + self.phis.get('"' + t + '"', []):
            for v, pred in inc:
                if pred.strip('"') == self.cur.strip('"'):
                    copies.append((san(dest), self.val(v, ty)))
        if len(copies) > 1:
            # parallel copy through temporaries
            s = ""
            for i, (d, v) in enumerate(copies):
                self.declare("phitmp%d_%s" % (i, d), self.vars[d])
                s += "phitmp%d_%s = %s; " % (i, d, v)
            for i, (d, v) in enumerate(copies):
                s += "%s = phitmp%d_%s; " % (d, i, d)
            return s + "goto " + san(t)
        s = "".join("%s = %s; " % c for c in copies)
        return s + "goto " + san(t)

    def setv(self, name, t, expr):
        self.vtypes[name] = t
        self.declare(san(name), go_type(t, self.mod))
        self.emit("%s = %s" % (san(name), expr))

    def ptr_load(self, ptok, pt):
        """Go lvalue expression for *ptok where ptok has pointer type pt"""
        n = ptok[1:] if ptok.startswith("%") else None
        if n in self.allocas and self.allocas[n][0] == "var":
            return san(n)
        if is_i8ptr(pt):
            return ("mem8", self.val(ptok, pt))
        return "*" + self.val(ptok, pt)

    def instr(self, ins):
        mod = self.mod
        m = re.match(r"^%([\w.$\"-]+) = (.*)$", ins)
        dest, rhs = (m.group(1), m.group(2)) if m else (None, ins)
        op = rhs.split(" ", 1)[0]
        if op == "alloca" or op == "phi":
            return
        if op == "load":
            mm = re.match(r"^load (?:volatile )?(.*)$", rhs)
            parts = split_top(mm.group(1))
            t, _ = parse_type(parts[0])
            pt, ptok = self.typed(parts[1])
            lv = self.ptr_load(ptok, pt)
            if isinstance(lv, tuple):
                lv = "c_ld8(%s)" % lv[1]
            self.setv(dest, t, lv)
            return
        if op == "store":
            mm = re.match(r"^store (?:volatile )?(.*)$", rhs)
            parts = split_top(mm.group(1))
            vt, vtok = self.typed(parts[0])
            pt, ptok = self.typed(parts[1])
            if vt.kind == "ptr" and vt.elem.kind == "func":
                raise Unsupported("function pointer store")
            lv = self.ptr_load(ptok, pt)
            if isinstance(lv, tuple):
                self.emit("c_st8(%s, %s)" % (lv[1], self.val(vtok, vt)))
            else:
                self.emit("%s = %s" % (lv, self.val(vtok, vt)))
            return
        if op == "getelementptr":
            mm = re.match(r"^getelementptr (?:inbounds )?(.*)$", rhs)
            parts = split_top(mm.group(1))
            base_t, _ = parse_type(parts[0])
            pt, ptok = self.typed(parts[1])
            idx = [self.typed(p) for p in parts[2:]]
            if base_t.kind == "int" and base_t.bits == 8 and len(idx) == 1:
                p = self.val(ptok, pt)
                i = self.as_i64(idx[0])
                self.setv(dest, T("ptr", elem=base_t), "c_padd(%s, %s)" % (p, i))
                return
            if base_t.kind == "array" and base_t.elem.kind == "int" and base_t.elem.bits == 8 and len(idx) == 2 and idx[0][1] == "0":
                p = self.val(ptok, pt)
                i = self.as_i64(idx[1])
                self.setv(dest, T("ptr", elem=base_t.elem), "c_padd(%s, %s)" % (p, i))
                return
            if base_t.kind == "named" and len(idx) == 2 and idx[0][1] == "0":
                sn = struct_go_name(base_t.name)
                fields = mod.structs.get(base_t.name)
                if sn is None or fields is None:
                    raise Unsupported("field access into %" + base_t.name)
                k = int(idx[1][1])
                ft = fields[k]
                if ft.kind in ("named", "array", "literalstruct") and not (ft.kind == "named" and struct_go_name(ft.name)):
                    raise Unsupported("nested aggregate field")
                pv = self.val(ptok, pt)
                if pv.startswith("&"):
                    pv = pv[1:]
                self.setv(dest, T("ptr", elem=ft), "&%s.%s" % (pv, field_name(sn, k, len(fields))))
                return
            raise Unsupported("getelementptr form: " + rhs[:80])
        if op == "bitcast":
            mm = re.match(r"^bitcast (.*) to (.*)$", rhs)
            st, stok = self.typed(mm.group(1))
            dt, _ = parse_type(mm.group(2))
            if is_i8ptr(dt) and st.kind == "ptr" and st.elem.kind == "named" and struct_go_name(st.elem.name):
                self.casts[dest] = (self.val(stok, st), st)
                return
            if is_i8ptr(dt) and is_i8ptr(st):
                self.setv(dest, dt, self.val(stok, st))
                return
            raise Unsupported("bitcast %s to %s" % (ty_str(st), ty_str(dt)))
        if op in ("add", "sub", "mul", "and", "or", "xor", "shl", "lshr", "ashr", "sdiv", "srem", "udiv", "urem"):
            mm = re.match(r"^\w+ (?:nsw |nuw |exact )*(.*)$", rhs)
            parts = split_top(mm.group(1))
            t, a = self.typed(parts[0])
            b = parts[1].strip()
            A, B = self.val(a, t), self.val(b, t)
            gt = go_type(t, mod)
            if gt == "bool":
                e = {"and": "%s && %s", "or": "%s || %s", "xor": "%s != %s"}.get(op)
                if e is None: raise Unsupported(op + " on i1")
                self.setv(dest, t, e % (A, B)); return
            sym = {"add": "+", "sub": "-", "mul": "*", "and": "&", "or": "|", "xor": "^", "sdiv": "/", "srem": "%"}
            if op in sym:
                self.setv(dest, t, "%s %s %s" % (par(A), sym[op], par(B)))
            elif op in ("udiv", "urem"):
                u = "u" + gt
                self.setv(dest, t, "%s(%s(%s) %s %s(%s))" % (gt, u, A, "/" if op == "udiv" else "%", u, B))
            elif op == "shl":
                self.setv(dest, t, "%s << uint64(%s)" % (par(A), B))
            elif op == "ashr":
                self.setv(dest, t, "%s >> uint64(%s)" % (par(A), B))
            elif op == "lshr":
                self.setv(dest, t, "%s(u%s(%s) >> uint64(%s))" % (gt, gt, A, B))
            return
        if op == "icmp":
            mm = re.match(r"^icmp (\w+) (.*)$", rhs)
            pred = mm.group(1)
            parts = split_top(mm.group(2))
            t, a = self.typed(parts[0])
            b = parts[1].strip()
            A, B = self.val(a, t), self.val(b, t)
            gt = go_type(t, mod)
            bt = T("int", bits=1)
            if pred in ("eq", "ne"):
                if gt == "Ptr" and (a.strip() == "null" or b.strip() == "null"):
                    # comparison with NULL: the block decides (an offset from NULL is undefined behaviour in C)
                    other = B if a.strip() == "null" else A
                    self.declare("ptmp", "Ptr")
                    self.emit("ptmp = " + other)
                    self.setv(dest, bt, "ptmp.B %s nil" % ("==" if pred == "eq" else "!=")); return
                self.setv(dest, bt, "%s %s %s" % (par(A), "==" if pred == "eq" else "!=", par(B))); return
            if t.kind == "ptr":
                raise Unsupported("ordered pointer comparison")
            sym = {"slt": "<", "sle": "<=", "sgt": ">", "sge": ">=", "ult": "<", "ule": "<=", "ugt": ">", "uge": ">="}[pred]
            if pred[0] == "u":
                A, B = "u%s(%s)" % (gt, A), "u%s(%s)" % (gt, B)
            self.setv(dest, bt, "%s %s %s" % (par(A), sym, par(B)))
            return
        if op in ("sext", "zext", "trunc"):
            mm = re.match(r"^\w+ (.*) to (.*)$", rhs)
            st, stok = self.typed(mm.group(1))
            dt, _ = parse_type(mm.group(2))
            A = self.val(stok, st)
            gs, gd = go_type(st, mod), go_type(dt, mod)
            if gs == "bool":
                self.externs.add("b2i")
                self.setv(dest, dt, "%s(c_b2i(%s))" % (gd, A)); return
            if gd == "bool":
                self.setv(dest, dt, "(%s & 1) != 0" % par(A)); return
            if op == "zext":
                self.setv(dest, dt, "%s(u%s(%s))" % (gd, gs, A))
            else:
                self.setv(dest, dt, "%s(%s)" % (gd, A))
            return
        if op == "select":
            parts = split_top(rhs[len("select "):])
            ct, c = self.typed(parts[0])
            t, a = self.typed(parts[1])
            _, b = self.typed(parts[2])
            self.vtypes[dest] = t
            self.declare(san(dest), go_type(t, mod))
            self.emit("if %s { %s = %s } else { %s = %s }" % (self.val(c, ct), san(dest), self.val(a, t), san(dest), self.val(b, t)))
            return
        if op == "br":
            mm = re.match(r"^br label (%[\w.$\"-]+)$", rhs)
            if mm:
                self.emit(self.goto(mm.group(1))); return
            mm = re.match(r"^br i1 ([^,]+), label (%[\w.$\"-]+), label (%[\w.$\"-]+)$", rhs)
            c = self.val(mm.group(1), T("int", bits=1))
            self.emit("if %s { %s } else { %s }" % (c, self.goto(mm.group(2)), self.goto(mm.group(3))))
            return
        if op == "switch":
            mm = re.match(r"^switch (\w+) ([^,]+), label (%[\w.$\"-]+) \[(.*)\]$", rhs)
            t, _ = parse_type(mm.group(1))
            v = self.val(mm.group(2), t)
            cases = re.findall(r"\w+ (-?\d+), label (%[\w.$\"-]+)", mm.group(4))
            s = "switch %s { " % v
            for cv, lab in cases:
                s += "case %s: %s; " % (cv, self.goto(lab))
            s += "default: %s }" % self.goto(mm.group(3))
            self.emit(s)
            self.emit('panic("unreachable")')
            return
        if op == "ret":
            if rhs == "ret void":
                self.emit("return"); return
            t, v = self.typed(rhs[4:])
            self.emit("return " + self.val(v, t)); return
        if op == "unreachable":
            self.emit('panic("unreachable")'); return
        if op == "call" or rhs.startswith("tail call") or rhs.startswith("notail call"):
            self.call(dest, rhs); return
        raise Unsupported("instruction " + op)

    def as_i64(self, tv):
        t, tok = tv
        v = self.val(tok, t)
        if t.kind == "int" and t.bits == 64: return par(v)
        return "int64(%s)" % v

    def call(self, dest, rhs):
        mm = re.match(r"^(?:tail |notail )?call (.*?)@([\w.$]+)\((.*)\)(?: #\d+)?$", rhs)
        if not mm:
            raise Unsupported("indirect call")
        pre, name, argstr = mm.group(1), mm.group(2), mm.group(3)
        pre = re.sub(r"\([^()]*(\([^()]*\)[^()]*)*\)\s*$", "", strip_attrs(pre)).strip()   # drop "(i32, i8*, ...)" of vararg callee types
        rt, _ = parse_type(pre)
        args = [self.typed(a) for a in split_top(argstr)]
        if name.startswith("llvm.memcpy") or name.startswith("llvm.memmove") or name.startswith("llvm.memset"):
            kind = name.split(".")[1]
            d, s = args[0][1], args[1][1]
            dn, sn = d.lstrip("%"), s.lstrip("%")
            if dn in self.casts or sn in self.casts:
                # whole-struct assignment  *dst = *src
                if kind == "memset" or dn not in self.casts or sn not in self.casts:
                    raise Unsupported("byte access to a struct")
                (de, dt), (se, st_) = self.casts[dn], self.casts[sn]
                if ty_str(dt) != ty_str(st_):
                    raise Unsupported("struct copy between different types")
                self.emit("*%s = *%s" % (par(de), par(se)))
                return
            if kind == "memset":
                self.emit("c_memset(%s, %s, %s)" % (self.val(d, args[0][0]), self.val(s, args[1][0]), self.as_i64(args[2])))
            else:
                self.emit("c_%s(%s, %s, %s)" % (kind, self.val(d, args[0][0]), self.val(s, args[1][0]), self.as_i64(args[2])))
            self.externs.add(kind)
            return
        if name.startswith("llvm."):
            raise Unsupported("intrinsic " + name)
        decl = self.mod.decls.get(name)
        nfixed = len(decl[1]) if decl else len(args)
        gargs = []
        for (t, tok) in args[:nfixed]:
            gargs.append(self.val(tok, t))
        self.known.add(name)
        e = "%s(%s)" % (name, ", ".join(gargs))
        if dest is not None and rt.kind != "void":
            self.setv(dest, rt, e)
        else:
            self.emit(e)


def par(e):
    return e if re.match(r"^[\w.]+$|^-?\d+$|^\w+\(.*\)$|^Ptr\{.*\}$", e) else "(" + e + ")"


def field_name(sn, k, n):
    names = STRUCT_FIELDS.get(sn)
    if names and len(names) == n:
        return names[k]
    return "f%d" % k


PRELUDE = '''// Code generated by /verif/tools/c2go.py from clang-14 -O0 LLVM IR of the C runtime; DO NOT EDIT.
// One Go statement per IR instruction. See DESIGN.md section 3b for what the extraction keeps and drops.
package ddprt

// a block of bytes (one malloc'd / stack array object) and a pointer into it; contents and size are ghost state
type Blk struct{ id int64 }
type Ptr struct {
	B *Blk
	O int64
}

// an object whose layout is not extracted (only its address is passed along)
type Opaque struct{ id int64 }

// ---- primitives with contracts in /verif/contracts/trusted/c_runtime.spec (never executed) ----
func c_padd(p Ptr, d int64) Ptr         { return Ptr{p.B, p.O + d} }
func c_pblk(b *Blk) Ptr                { return Ptr{b, 0} }
func c_alloca(n int64) *Blk            { panic("extern") }
func c_ld8(p Ptr) int8                 { panic("extern") }
func c_st8(p Ptr, v int8)              { panic("extern") }
func c_cstr(k int64) Ptr               { panic("extern") }
func c_b2i(b bool) int64               { if b { return 1 }; return 0 }
func c_memcpy(dst, src Ptr, n int64)   { panic("extern") }
func c_memmove(dst, src Ptr, n int64)  { panic("extern") }
func c_memset(dst Ptr, v int8, n int64) { panic("extern") }
'''


def main():
    ap = argparse.ArgumentParser()
    ap.add_argument("--out", required=True)
    ap.add_argument("--repo", default="/repo")
    ap.add_argument("--only", default="")
    ap.add_argument("--keep-ll", action="store_true")
    ap.add_argument("files", nargs="+")
    a = ap.parse_args()
    os.makedirs(a.out, exist_ok=True)
    inc = os.path.join(a.repo, "lib/runtime/include")
    only = set(x for x in a.only.split(",") if x)
    mods = []
    for cf in a.files:
        ll = os.path.join(a.out, os.path.basename(cf) + ".ll")
        r = subprocess.run(["clang-14", "-O0", "-S", "-emit-llvm", "-fno-discard-value-names", "-std=c11", "-D_POSIX_C_SOURCE=200809L",
                            "-w", "-I", inc, os.path.join(a.repo, cf), "-o", ll], capture_output=True, text=True)
        if r.returncode != 0:
            sys.stderr.write(r.stderr)
            sys.exit(2)
        mods.append((cf, parse_module(open(ll).read())))
        if not a.keep_ll:
            os.remove(ll)
    structs = {}
    for _, m in mods:
        for n, fs in m.structs.items():
            if struct_go_name(n) and fs is not None:
                structs.setdefault(n, fs)
    out = [PRELUDE]
    # struct types
    allmod = Module()
    allmod.structs = structs
    for _, m in mods:
        allmod.decls.update(m.decls)
        allmod.globals.update(m.globals)
    for n in sorted(structs):
        sn = struct_go_name(n)
        try:
            fl = []
            for k, ft in enumerate(structs[n]):
                fl.append("\t%s %s" % (field_name(sn, k, len(structs[n])), go_type(ft, allmod)))
            out.append("type %s struct {\n%s\n}\n" % (sn, "\n".join(fl)))
        except Unsupported as e:
            out.append("// type %s not extracted: %s\n" % (sn, e))
            allmod.structs[n] = None
    # drop structs that could not be extracted
    allmod.structs = {k: v for k, v in allmod.structs.items() if v is not None}
    report = {"translated": [], "opaque": {}, "extern": []}
    called = set()
    done = set()
    for cf, m in mods:
        m.structs = allmod.structs
        m.decls = allmod.decls
        m.globals = allmod.globals
        for name, f in m.funcs.items():
            if only and name not in only:
                continue
            if name in done:
                continue
            done.add(name)
            if f.blocks is None:
                report["opaque"][name] = f.error
                continue
            try:
                em = Emitter(m, f, called)
                text = em.run()
                out.append("// from %s\n%s\n" % (cf, text))
                report["translated"].append(name)
            except Unsupported as e:
                report["opaque"][name] = str(e)
            except Exception as e:  # a parse problem is an extraction limit, not a crash of the check
                report["opaque"][name] = "extraction error: %r" % (e,)
    # externs: everything called or opaque, with its C signature
    need = (called | set(report["opaque"])) - set(report["translated"])
    for name in sorted(need):
        d = allmod.decls.get(name)
        if d is None:
            continue
        try:
            ps = ", ".join("p%d %s" % (i, go_type(t, allmod)) for i, t in enumerate(d[1]))
            rt = "" if d[0].kind == "void" else " " + go_type(d[0], allmod)
            out.append('func %s(%s)%s { panic("extern") }' % (name, ps, rt))
            report["extern"].append(name)
        except Unsupported as e:
            out.append("// extern %s not expressible: %s" % (name, e))
            report["opaque"][name] = "signature: %s" % e
    og = set()
    for _, m in mods:
        og |= m.opaque_globals
    for g in sorted(og):
        out.append('func c_global_%s() *Opaque { panic("extern") }' % san(g))
    with open(os.path.join(a.out, "ddprt.go"), "w") as fh:
        fh.write("\n".join(out) + "\n")
    with open(os.path.join(a.out, "go.mod"), "w") as fh:
        fh.write("module github.com/DDP-Projekt/Kompilierer/lib/runtime/ddprt\n\ngo 1.22\n")
    with open(os.path.join(a.out, "extraction.json"), "w") as fh:
        json.dump(report, fh, indent=1)
    print("c2go: %d translated, %d opaque, %d extern" % (len(report["translated"]), len(report["opaque"]), len(report["extern"])))


if __name__ == "__main__":
    main()
