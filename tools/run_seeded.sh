#!/bin/bash
# run_seeded.sh [seed-id ...]: applies each seeded defect to /repo, runs the quick check of its
# property, records whether a VIOLATION is reported, and undoes the change straight afterwards.
cd /verif
if [ -n "$(git -C /repo status --porcelain)" ]; then echo "refusing to run: /repo has uncommitted changes (they would be lost when the seed is undone)"; exit 2; fi
ids="$@"; [ -z "$ids" ] && ids=$(ls seeded)
for id in $ids; do
  prop=$(python3 -c "import json;print(json.load(open('seeded/$id/meta.json'))['property'])")
  if ! grep -q "\"property_id\": \"$prop\"" MANIFEST.json; then echo "$id: property $prop not claimed -> not run"; continue; fi
  if ! git -C /repo apply --check /verif/seeded/$id/patch.diff 2>/dev/null; then echo "$id: patch does not apply"; continue; fi
  git -C /repo apply /verif/seeded/$id/patch.diff
  out=$(${VGO_CHECK:-bin/check} $prop --tier quick --no-evidence 2>&1); rc=$?
  git -C /repo checkout -- . 
  v=$(echo "$out" | grep -c "^VIOLATION")
  echo "$id: property=$prop exit=$rc violations=$v $(echo "$out" | grep "^VIOLATION" | head -2 | sed 's/.*obligation=//' | tr '\n' ';')"
done
