#!/bin/bash
# confirm_seed.sh <seed-dir> <worktree>: confirms a seeded defect in a scratch worktree:
#  suite passes with the patch, demo fails with it, demo passes without it.
set -u
S=$1; WT=$2
export GOFLAGS=-mod=mod GOPROXY=off
export CGO_CPPFLAGS="$(llvm-config-14 --cppflags)" CGO_CXXFLAGS=-std=c++14 CGO_LDFLAGS="$(llvm-config-14 --ldflags --libs --system-libs all)"
cd $WT || exit 2
git checkout -q -- . ; git clean -fdq
echo "== demo without patch"; (bash $S/run_demo.sh >/tmp/seed_demo_clean.log 2>&1); c0=$?; echo "exit=$c0"
git checkout -q -- . ; git clean -fdq
git apply $S/patch.diff || { echo "patch does not apply"; exit 2; }
echo "== build+suite with patch"; go build ./src/... >/tmp/seed_build.log 2>&1; b=$?; go test -vet=off -count=1 ./src/... >/tmp/seed_suite.log 2>&1; s=$?; echo "build=$b suite=$s"; grep -v "^ok\|no test files" /tmp/seed_suite.log | head -5
echo "== demo with patch"; (bash $S/run_demo.sh >/tmp/seed_demo_patched.log 2>&1); c1=$?; echo "exit=$c1"; tail -5 /tmp/seed_demo_patched.log
git checkout -q -- . ; git clean -fdq
if [ $c0 -eq 0 ] && [ $b -eq 0 ] && [ $s -eq 0 ] && [ $c1 -ne 0 ]; then echo "CONFIRMED"; else echo "NOT CONFIRMED"; fi
