#!/bin/bash
# regress.sh: every claimed property's quick check on the current tree; non-zero if any reports a VIOLATION.
# Run after EVERY change of the engine, of a trusted contract or of a contract other functions rely on.
cd /verif
rc=0
for p in $(python3 -c "import json;print(' '.join(c['property_id'] for c in json.load(open('/verif/MANIFEST.json'))['checks']))"); do
  out=$(VERIF_SEED=${VERIF_SEED:-0} bin/check $p --no-evidence 2>&1)
  echo "$out" | grep -E "^(VIOLATION|KNOWN-FINDING|C[0-9]+:)" | cut -c1-200
  echo "$out" | grep -q "^VIOLATION" && rc=1
done
exit $rc
