#!/usr/bin/env python3
"""ddp_gen.py unary|binary|ternary <op> <class...> <resultclass>: prints a DDP program that applies the operator to
variables of the given type classes and hands the result to a function whose parameter has the checker's result type.
Classes: 1 Zahl, 2 Kommazahl, 3 Byte, 4 Wahrheitswert, 5 Buchstabe. Operators by the numeric values in src/ast/operators.go."""
import sys
TYPE = {1: ("Die Zahl", "Zahl", "eine Zahl", "5"), 2: ("Die Kommazahl", "Kommazahl", "eine Kommazahl", "5,5"),
        3: ("Der Byte", "Byte", "einen Byte", "(5 als Byte)"), 4: ("Der Wahrheitswert", "Wahrheitswert", "einen Wahrheitswert", "wahr"),
        5: ("Der Buchstabe", "Buchstabe", "einen Buchstaben", "'a'")}
UN = {1: "der Betrag von {a}", 3: "-{a}", 4: "nicht {a}", 5: "logisch nicht {a}"}
BIN = {5: "{a} plus {b}", 6: "{a} minus {b}", 7: "{a} mal {b}", 8: "{a} durch {b}", 10: "{a} hoch {b}",
       11: "der Logarithmus von {a} zur Basis {b}", 12: "{a} logisch und {b}", 13: "{a} logisch oder {b}", 14: "{a} logisch kontra {b}",
       15: "{a} modulo {b}", 16: "{a} um {b} Bit nach links verschoben", 17: "{a} um {b} Bit nach rechts verschoben",
       18: "{a} gleich {b} ist", 19: "{a} ungleich {b} ist", 20: "{a} kleiner als {b} ist", 21: "{a} größer als {b} ist",
       22: "{a} kleiner als, oder {b} ist", 23: "{a} größer als, oder {b} ist", 1: "{a} und {b}", 2: "{a} oder {b}", 3: "entweder {a}, oder {b} ist"}
TER = {2: "{a} zwischen {b} und {c} ist"}
def main():
    kind, op = sys.argv[1], int(sys.argv[2])
    cls = [int(x) for x in sys.argv[3:-1]]
    res = int(sys.argv[-1])
    names = ["a", "b", "c"]
    out = []
    art, tname, ret, _ = TYPE.get(res, TYPE[1])
    out.append("Die Funktion foo mit dem Parameter x vom Typ %s, gibt %s zurück, macht:\n\tGib x zurück.\nUnd kann so benutzt werden:\n\t\"foo <x>\"\n" % (tname, ret))
    for n, k in zip(names, cls):
        a, _, _, lit = TYPE[k]
        out.append("%s %s ist %s." % (a, n, lit))
    tmpl = {"unary": UN, "binary": BIN, "ternary": TER}[kind][op]
    expr = tmpl.format(**dict(zip(names, names)))
    out.append("%s r ist foo (%s)." % (art, expr))
    print("\n".join(out))
main()
