#!/bin/bash
# selftest.sh [PROP]: applies each deliberate property-breaking mutant to /repo, runs the quick check,
# requires a VIOLATION line matching the expected clause, and undoes the change. Run after every engine change.
cd /verif
REPO=${VERIF_REPO:-/repo}
if [ -n "$(git -C $REPO status --porcelain)" ]; then echo "refusing to run: /repo has uncommitted changes"; exit 2; fi
fail=0; n=0
while IFS=$'\t' read -r prop file expr expect; do
  case "$prop" in ''|\#*) continue;; esac
  [ -n "$1" ] && [ "$1" != "$prop" ] && continue
  n=$((n+1))
  sed -i -E "$expr" $REPO/$file
  if [ -z "$(git -C $REPO status --porcelain)" ]; then echo "MUTANT-NOT-APPLIED $prop $file $expr"; fail=1; continue; fi
  out=$(bin/check $prop --no-evidence 2>&1)
  git -C $REPO checkout -- .
  if echo "$out" | grep "^VIOLATION" | grep -qE "$expect"; then echo "caught   $prop $file /$expect/"; else echo "MISSED   $prop $file $expr"; echo "$out" | grep "^VIOLATION" | head -3; fail=1; fi
done < selftest/mutants.txt
echo "selftest: $n mutants, fail=$fail"
exit $fail
