#!/bin/bash
# kddp_ir.sh <file.ddp> [out.ll]: builds kddp from /repo's working tree (cached per tree state in a scratch dir)
# and compiles the DDP file to LLVM IR. Exit status of kddp is returned; llvm-as-14 then validates the IR.
set -u
export GOFLAGS=-mod=mod GOPROXY=off
export CGO_CPPFLAGS="$(llvm-config-14 --cppflags)" CGO_CXXFLAGS=-std=c++14 CGO_LDFLAGS="$(llvm-config-14 --ldflags --libs --system-libs all)"
S=${VERIF_SCRATCH:-$(mktemp -d /tmp/vgo-kddp-XXXXXX)}
mkdir -p "$S"
if [ ! -x "$S/kddp" ]; then (cd ${VERIF_REPO:-/repo} && go build -o "$S/kddp" ./cmd/kddp) || exit 3; fi
out=${2:-$S/out.ll}
"$S/kddp" kompiliere "$1" --list-defs-linken=false --module-linken=false -o "$out" > "$S/kddp.log" 2>&1; rc=$?
cat "$S/kddp.log"
if [ $rc -ne 0 ]; then echo "kddp exit status $rc"; exit $rc; fi
llvm-as-14 "$out" -o /dev/null 2> "$S/llvm.log"; rc2=$?
if [ $rc2 -ne 0 ]; then echo "LLVM rejects the emitted IR:"; head -5 "$S/llvm.log"; exit 4; fi
echo "compiled and accepted by LLVM"
exit 0
