#!/bin/bash
# Replay for C02 / VisitUnaryExpr: a DDP program applying operator {{op}} to an operand of class {{cls}} must compile
# to IR that LLVM accepts. Exit status != 0 = the counterexample reproduces on the real compiler.
d=$(mktemp -d /tmp/vgo-c02-XXXXXX)
python3 /verif/tools/ddp_gen.py unary {{op}} {{cls}} {{res}} > $d/p.ddp
cat $d/p.ddp
VERIF_SCRATCH=$d /verif/tools/kddp_ir.sh $d/p.ddp; rc=$?
rm -rf $d
exit $rc
