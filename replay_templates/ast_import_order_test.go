package ast

// Replay template for C16 / IterateImportedDecls$1: two public declarations at the positions of the
// verifier's counterexample must be visited in source order, whatever order the map yields them in.
// The test asserts the property; it FAILS on a tree where the comparator is not the position order.

import (
	"testing"

	"github.com/DDP-Projekt/Kompilierer/src/token"
)

func TestReplayImportOrder(t *testing.T) {
	posA := token.Position{Line: {{aLine}}, Column: {{aCol}}}
	posB := token.Position{Line: {{bLine}}, Column: {{bCol}}}
	before := func(p, q token.Position) bool { return p.Line < q.Line || (p.Line == q.Line && p.Column < q.Column) }
	for round := 0; round < 64; round++ {
		a := &VarDecl{NameTok: token.Token{Literal: "a"}, Range: token.Range{Start: posA, End: posA}, IsPublic: true}
		b := &VarDecl{NameTok: token.Token{Literal: "b"}, Range: token.Range{Start: posB, End: posB}, IsPublic: true}
		mod := &Module{PublicDecls: map[string]Declaration{}}
		if round%2 == 0 {
			mod.PublicDecls["a"], mod.PublicDecls["b"] = a, b
		} else {
			mod.PublicDecls["b"], mod.PublicDecls["a"] = b, a
		}
		imprt := &ImportStmt{Modules: []*Module{mod}}
		var seen []Declaration
		IterateImportedDecls(imprt, func(_ string, decl Declaration, _ token.Token) bool {
			seen = append(seen, decl)
			return true
		})
		if len(seen) != 2 {
			t.Fatalf("visited %d declarations", len(seen))
		}
		if before(seen[1].GetRange().Start, seen[0].GetRange().Start) {
			t.Fatalf("round %d: declarations visited out of source order: %v before %v",
				round, seen[0].GetRange().Start, seen[1].GetRange().Start)
		}
	}
}
