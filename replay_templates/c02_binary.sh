#!/bin/bash
# Replay for C02 / VisitBinaryExpr: operator {{op}} on operand classes {{l}}, {{r}} (checker result class {{res}})
d=$(mktemp -d /tmp/vgo-c02-XXXXXX)
python3 /verif/tools/ddp_gen.py binary {{op}} {{l}} {{r}} {{res}} > $d/p.ddp
cat $d/p.ddp
VERIF_SCRATCH=$d /verif/tools/kddp_ir.sh $d/p.ddp; rc=$?
rm -rf $d
exit $rc
