#!/bin/bash
# Replay for C02 / VisitTernaryExpr: operator {{op}} on operand classes {{l}}, {{m}}, {{r}}
d=$(mktemp -d /tmp/vgo-c02-XXXXXX)
python3 /verif/tools/ddp_gen.py ternary {{op}} {{l}} {{m}} {{r}} 4 > $d/p.ddp
cat $d/p.ddp
VERIF_SCRATCH=$d /verif/tools/kddp_ir.sh $d/p.ddp; rc=$?
rm -rf $d
exit $rc
